// Package choice is the single source of nondeterminism of every check: every
// random decision of a case goes through a Chooser; the sequence of values it
// returned is the case's identity (replay files store it), and with rapid
// behind it the same sequence is what gets shrunk.
package choice

import (
	"math/rand"

	"pgregory.net/rapid"
)

type Chooser interface {
	// Intn returns a value in [0, n); n <= 1 yields 0 without consuming a draw.
	Intn(n int) int
	// Ints returns a slice of at most maxLen values in [0, n).
	Ints(maxLen, n int) []int
}

// Recorder wraps a Chooser and remembers everything it handed out, in a flat
// list: Intn appends the value, Ints appends the length and then the values.
type Recorder struct {
	In    Chooser
	Draws []int
}

func (r *Recorder) Intn(n int) int {
	if n <= 1 {
		return 0
	}
	v := r.In.Intn(n)
	r.Draws = append(r.Draws, v)
	return v
}

func (r *Recorder) Ints(maxLen, n int) []int {
	v := r.In.Ints(maxLen, n)
	r.Draws = append(r.Draws, len(v))
	r.Draws = append(r.Draws, v...)
	return v
}

// Rapid draws from a *rapid.T: the only source of randomness in checks.
type Rapid struct{ T *rapid.T }

func (c Rapid) Intn(n int) int {
	if n <= 1 {
		return 0
	}
	return rapid.IntRange(0, n-1).Draw(c.T, "c")
}

func (c Rapid) Ints(maxLen, n int) []int {
	if maxLen <= 0 || n <= 1 {
		return nil
	}
	return rapid.SliceOfN(rapid.IntRange(0, n-1), 0, maxLen).Draw(c.T, "v")
}

// Replay plays back a recorded draw list; once exhausted (or out of
// range after a hand edit) it answers 0 / empty.
type Replay struct {
	Draws []int
	pos   int
	Over  bool
}

func (c *Replay) next() int {
	if c.pos >= len(c.Draws) {
		c.Over = true
		return 0
	}
	v := c.Draws[c.pos]
	c.pos++
	return v
}

func (c *Replay) Intn(n int) int {
	if n <= 1 {
		return 0
	}
	v := c.next()
	if v < 0 || v >= n {
		c.Over = true
		return 0
	}
	return v
}

func (c *Replay) Ints(maxLen, n int) []int {
	l := c.next()
	if l < 0 || l > maxLen {
		c.Over = true
		l = 0
	}
	out := make([]int, 0, l)
	for i := 0; i < l; i++ {
		v := c.next()
		if v < 0 || v >= n {
			c.Over = true
			v = 0
		}
		out = append(out, v)
	}
	return out
}

// Rand is used by self-tests only.
type Rand struct{ R *rand.Rand }

func (c Rand) Intn(n int) int {
	if n <= 1 {
		return 0
	}
	return c.R.Intn(n)
}

func (c Rand) Ints(maxLen, n int) []int {
	if maxLen <= 0 || n <= 1 {
		return nil
	}
	l := c.R.Intn(maxLen + 1)
	out := make([]int, l)
	for i := range out {
		out[i] = c.R.Intn(n)
	}
	return out
}
