package engine

import (
	"fmt"
	"os"
	"testing"

	"grits/process"
	"verifharness/sim"
)

// TestAdhoc runs the program in $VERIF_ADHOC under the simulator (debugging aid).
func TestAdhoc(t *testing.T) {
	p := os.Getenv("VERIF_ADHOC")
	if p == "" {
		t.Skip()
	}
	b, _ := os.ReadFile(p)
	for _, m := range []process.Execution_Version{process.NORMAL_ASYNC, process.NORMAL_SYNC} {
		res := sim.Run(t, string(b), sim.Config{Mode: m, CancelAt: -1, KeepLog: os.Getenv("VERIF_DEBUG") != ""})
		fmt.Printf("mode=%d accepted=%v parse=%q type=%q prints=%v errors=%v quiescent=%v obs=%v unhooked=%v model=%v\n", m, res.Accepted, res.ParseErr, res.TypeErr, res.Prints, res.Errors, res.Quiescent, res.ProtocolObs, res.Unhooked, res.ModelErrors)
	}
}
