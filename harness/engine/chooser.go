// Package engine turns the simulator, the generator and the reference
// semantics into per-property checks.
package engine

import (
	"verifharness/choice"

	"pgregory.net/rapid"
)

type Chooser = choice.Chooser
type recorder = choice.Recorder
type replayChooser = choice.Replay

func newRecorder(rt *rapid.T) *recorder { return &recorder{In: choice.Rapid{T: rt}} }
