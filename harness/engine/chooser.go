// Package engine turns the simulator, the generator and the reference
// semantics into per-property checks. Every random decision of a case goes
// through a Chooser; the sequence of values it returned is the case's identity
// (replay files store it), and with rapid behind it the same sequence is what
// gets shrunk.
package engine

import (
	"math/rand"

	"pgregory.net/rapid"
)

type Chooser interface {
	// Intn returns a value in [0, n); n <= 1 yields 0 without consuming a draw.
	Intn(n int) int
	// Ints returns a slice of at most maxLen values in [0, n).
	Ints(maxLen, n int) []int
}

// recorder wraps a Chooser and remembers everything it handed out, in a flat
// list: Intn appends the value, Ints appends the length and then the values.
type recorder struct {
	in    Chooser
	Draws []int
}

func (r *recorder) Intn(n int) int {
	if n <= 1 {
		return 0
	}
	v := r.in.Intn(n)
	r.Draws = append(r.Draws, v)
	return v
}

func (r *recorder) Ints(maxLen, n int) []int {
	v := r.in.Ints(maxLen, n)
	r.Draws = append(r.Draws, len(v))
	r.Draws = append(r.Draws, v...)
	return v
}

// rapidChooser draws from a *rapid.T: the only source of randomness in checks.
type rapidChooser struct{ t *rapid.T }

func (c rapidChooser) Intn(n int) int {
	if n <= 1 {
		return 0
	}
	return rapid.IntRange(0, n-1).Draw(c.t, "c")
}

func (c rapidChooser) Ints(maxLen, n int) []int {
	if maxLen <= 0 || n <= 1 {
		return nil
	}
	return rapid.SliceOfN(rapid.IntRange(0, n-1), 0, maxLen).Draw(c.t, "v")
}

// replayChooser plays back a recorded draw list; once exhausted (or out of
// range after a hand edit) it answers 0 / empty.
type replayChooser struct {
	draws []int
	pos   int
	Over  bool
}

func (c *replayChooser) next() int {
	if c.pos >= len(c.draws) {
		c.Over = true
		return 0
	}
	v := c.draws[c.pos]
	c.pos++
	return v
}

func (c *replayChooser) Intn(n int) int {
	if n <= 1 {
		return 0
	}
	v := c.next()
	if v < 0 || v >= n {
		c.Over = true
		return 0
	}
	return v
}

func (c *replayChooser) Ints(maxLen, n int) []int {
	l := c.next()
	if l < 0 || l > maxLen {
		c.Over = true
		l = 0
	}
	out := make([]int, 0, l)
	for i := 0; i < l; i++ {
		v := c.next()
		if v < 0 || v >= n {
			c.Over = true
			v = 0
		}
		out = append(out, v)
	}
	return out
}

// randChooser is used by self-tests only.
type randChooser struct{ r *rand.Rand }

func (c randChooser) Intn(n int) int {
	if n <= 1 {
		return 0
	}
	return c.r.Intn(n)
}

func (c randChooser) Ints(maxLen, n int) []int {
	if maxLen <= 0 || n <= 1 {
		return nil
	}
	l := c.r.Intn(maxLen + 1)
	out := make([]int, l)
	for i := range out {
		out[i] = c.r.Intn(n)
	}
	return out
}
