package engine

import (
	"bytes"
	"encoding/json"
	"fmt"
	"os"
	"os/exec"
	"path/filepath"
	"strings"
	"time"

	"grits/parser"
	"grits/process"
	"verifharness/gen"

	"pgregory.net/rapid"
)

// C18: process-level simulation of the command line tool. The binary under
// test is built from /repo's main package (real flag parsing, real
// parser.ParseFile, real log.Fatal / exit status, real stdout/stderr); each
// case is one subprocess in a scratch directory with a seeded file, seeded
// flags and injected file faults.

type CliCase struct {
	FileKind string   `json:"file_kind"`
	Text     string   `json:"text"`
	Args     []string `json:"args"` // flags; the file argument is appended (FileArg)
	FileArg  string   `json:"file_arg"`
	Extra    []string `json:"extra_args"`
	// Definite: "syntax" / "type" - the text is wrong by construction (a complete well-typed program,
	// decorations, then a line that cannot be right), whatever the parser under test says about it
	Definite string `json:"definite,omitempty"`
}

var cliFileKinds = []string{"accepted", "accepted", "broken-by-construction", "broken-by-construction", "type-error", "syntax-error", "empty", "missing", "directory", "truncated", "junk", "long-line", "no-final-newline", "annotated-linear", "annotated-linear"}

func DrawCliCase(ch Chooser) *CliCase {
	c := &CliCase{FileArg: "p.grits"}
	c.FileKind = cliFileKinds[ch.Intn(len(cliFileKinds))]
	prog := gen.Generate(ch.Intn, gen.Options{})
	switch c.FileKind {
	case "accepted":
		c.Text = prog.Text()
	case "type-error":
		if ch.Intn(2) == 1 {
			gen.ApplyWrongAlias(prog, ch.Intn)
			c.Text = prog.Text()
		} else {
			c.Text = gen.JunkProgram(ch.Intn)
		}
	case "syntax-error":
		c.Text = gen.MutateBytes(ch.Intn, prog.Text(), 3)
	case "empty":
		c.Text = ""
	case "missing":
		c.FileArg = "does-not-exist.grits"
	case "directory":
		c.FileArg = "adir"
	case "truncated":
		t := prog.Text()
		c.Text = t[:ch.Intn(len(t)+1)]
	case "long-line":
		// a very long line (comment or blanks, beyond any line buffer) in front of, or inside, a
		// file that is fine or has an error after the long line
		long := []string{"// " + strings.Repeat("x", 70000), strings.Repeat(" ", 70000), "/* " + strings.Repeat("y ", 40000) + "*/"}[ch.Intn(3)]
		rest := prog.Text()
		switch ch.Intn(3) {
		case 1:
			gen.ApplyWrongAlias(prog, ch.Intn)
			rest = prog.Text()
		case 2:
			rest = gen.MutateBytes(ch.Intn, rest, 2)
		}
		c.Text = "prc[first] : 1 = print p; close self\n" + long + "\n" + rest
	case "broken-by-construction":
		// a complete, well-typed program; then comments of several shapes, blank lines or one very
		// long comment line; then a line that is wrong whatever precedes it. The oracle does not ask
		// the parser whether this text is wrong: it is.
		var sb strings.Builder
		sb.WriteString(prog.Text())
		words := []string{"note", "see below", "todo", "x y z", "a b", ""}
		for i, n := 0, ch.Intn(4); i < n; i++ {
			wd := words[ch.Intn(len(words))]
			switch ch.Intn(7) {
			case 0:
				fmt.Fprintf(&sb, "/* %s */\n", wd)
			case 1:
				fmt.Fprintf(&sb, "/** %s **/\n", wd)
			case 2:
				fmt.Fprintf(&sb, "/*** %s ***/\n", wd)
			case 3:
				fmt.Fprintf(&sb, "// %s\n", wd)
			case 4:
				sb.WriteString("\n\n")
			case 5:
				fmt.Fprintf(&sb, "// %s\n", strings.Repeat("long ", 14000))
			default:
				fmt.Fprintf(&sb, "/**/ /* %s */ // %s\n", wd, wd)
			}
		}
		var nullary []string
		for _, d := range prog.Defs {
			if len(d.Params) == 0 && d.Prov == "" {
				nullary = append(nullary, d.Name)
			}
		}
		switch k := ch.Intn(5); {
		case k == 0:
			sb.WriteString("prc[zq9] : 1 = ")
			c.Definite = "syntax"
		case k == 1:
			sb.WriteString(")\n")
			c.Definite = "syntax"
		case k == 2 && len(nullary) > 0:
			// an exec of a function that does not exist, followed by a perfectly good one
			fmt.Fprintf(&sb, "exec nosuchfn9()\nexec %s()\n", nullary[ch.Intn(len(nullary))])
			c.Definite = "syntax"
		case k == 2 || k == 3:
			sb.WriteString("exec nosuchfn9()\n")
			c.Definite = "syntax"
		default:
			sb.WriteString("prc[zq9] : 1 = wait zq8; close self\n")
			c.Definite = "type"
		}
		c.Text = sb.String()
	case "annotated-linear":
		// runs with or without the typechecker: linear, forwards carry explicit polarities
		c.Text = gen.Generate(ch.Intn, gen.Options{Untypeable: true}).Text()
	case "no-final-newline":
		c.Text = strings.TrimRight(prog.Text(), "\n")
	default:
		c.Text = gen.JunkProgram(ch.Intn)
	}
	dash := []string{"--", "-"}
	d := func() string { return dash[ch.Intn(2)] }
	// every boolean switch independently: absent (most often), bare, =true, =false - so that pairs
	// such as `--noexecute --execute=false` or `--notypecheck=false --typecheck=false` occur
	for _, name := range []string{"typecheck", "notypecheck", "execute", "noexecute", "sync", "async"} {
		switch ch.Intn(7) {
		case 1, 2:
			c.Args = append(c.Args, d()+name)
		case 3:
			c.Args = append(c.Args, d()+name+"=true")
		case 4:
			c.Args = append(c.Args, d()+name+"=false")
		}
	}
	if v := ch.Intn(7); v > 0 {
		c.Args = append(c.Args, d()+"verbosity", fmt.Sprint(v-2)) // -1 .. 4
	}
	// shuffle flag order a little
	if len(c.Args) > 1 && ch.Intn(2) == 1 {
		i := ch.Intn(len(c.Args))
		if !strings.HasSuffix(c.Args[i], "verbosity") && (i == 0 || !strings.HasSuffix(c.Args[i-1], "verbosity")) {
			a := c.Args[i]
			c.Args = append(append([]string{}, c.Args[:i]...), c.Args[i+1:]...)
			c.Args = append([]string{a}, c.Args...)
		}
	}
	switch ch.Intn(8) {
	case 1:
		c.Extra = []string{"second.grits"}
	case 2:
		c.Extra = []string{"--noexecute"} // a flag after the file name is an extra argument for Go's flag package
	}
	return c
}

// expectations derived from the flags the way the documentation describes them
type cliExpect struct {
	typecheck, execute bool
	sync               bool
	chooses            bool // false: neither --sync nor --async is on
	extra              bool
}

func flagBool(args []string, name string, def bool) bool {
	v := def
	for _, a := range args {
		a = strings.TrimLeft(a, "-")
		if a == name {
			v = true
		} else if strings.HasPrefix(a, name+"=") {
			v = strings.TrimPrefix(a, name+"=") == "true"
		}
	}
	return v
}

func expectFor(c *CliCase) cliExpect {
	var e cliExpect
	e.typecheck = flagBool(c.Args, "typecheck", true) && !flagBool(c.Args, "notypecheck", false)
	e.execute = flagBool(c.Args, "execute", true) && !flagBool(c.Args, "noexecute", false)
	e.sync = flagBool(c.Args, "sync", false)
	e.chooses = e.sync || flagBool(c.Args, "async", true)
	e.extra = len(c.Extra) > 0
	return e
}

type cliOutcome struct {
	Exit     int
	Stdout   string
	Stderr   string
	TimedOut bool
}

func runCli(bin, dir string, c *CliCase) cliOutcome {
	os.MkdirAll(dir, 0o755)
	os.RemoveAll(filepath.Join(dir, "p.grits"))
	os.MkdirAll(filepath.Join(dir, "adir"), 0o755)
	if c.FileKind != "missing" && c.FileKind != "directory" {
		os.WriteFile(filepath.Join(dir, "p.grits"), []byte(c.Text), 0o644)
	}
	args := append(append(append([]string{}, c.Args...), c.FileArg), c.Extra...)
	cmd := exec.Command(bin, args...)
	cmd.Dir = dir
	var so, se bytes.Buffer
	cmd.Stdout, cmd.Stderr = &so, &se
	done := make(chan error, 1)
	if err := cmd.Start(); err != nil {
		return cliOutcome{Exit: -1, Stderr: err.Error()}
	}
	go func() { done <- cmd.Wait() }()
	select {
	case <-done:
	case <-time.After(30 * time.Second):
		cmd.Process.Kill()
		<-done
		return cliOutcome{Exit: -2, TimedOut: true, Stdout: so.String(), Stderr: se.String()}
	}
	return cliOutcome{Exit: cmd.ProcessState.ExitCode(), Stdout: so.String(), Stderr: se.String()}
}

type cliFacts struct {
	ParseOK, TypeOK, Contraction bool
	Readable                     bool
}

func libraryVerdicts(c *CliCase) cliFacts {
	f := cliFacts{Readable: c.FileKind != "missing" && c.FileKind != "directory"}
	if !f.Readable {
		return f
	}
	procs, assumed, env, err := parser.ParseString(c.Text)
	if err != nil {
		return f
	}
	f.ParseOK = true
	env.LogLevels = []process.LogLevel{}
	f.Contraction = strings.Contains(c.Text, "split") || strings.Contains(c.Text, ", top")
	if err := process.Typecheck(procs, assumed, env); err == nil {
		f.TypeOK = true
	}
	return f
}

// constructionVerdicts overrides what the library says with what is known by construction.
func constructionVerdicts(c *CliCase, f cliFacts) cliFacts {
	switch c.Definite {
	case "syntax":
		f.ParseOK, f.TypeOK = false, false
	case "type":
		f.TypeOK = false
	}
	return f
}

func hasPanicTrace(o cliOutcome) bool {
	s := o.Stderr + o.Stdout
	return strings.Contains(s, "goroutine ") && (strings.Contains(s, "[running]") || strings.Contains(s, "panic:")) || strings.Contains(s, "fatal error:")
}

func stripANSI(s string) string {
	for {
		i := strings.Index(s, "\x1b[")
		if i < 0 {
			return s
		}
		j := i + 2
		for j < len(s) && !(s[j] >= '@' && s[j] <= '~') {
			j++
		}
		if j >= len(s) {
			return s[:i]
		}
		s = s[:i] + s[j+1:]
	}
}

func programOutputLines(o cliOutcome) int {
	n := 0
	for _, l := range strings.Split(o.Stdout, "\n") {
		// at higher verbosity the line is preceded by ANSI colour escapes
		if strings.HasPrefix(stripANSI(l), "> ") {
			n++
		}
	}
	return n
}

func ExecCliCase(bin, dir string, c *CliCase) (*Violation, cliOutcome, cliFacts) {
	f := constructionVerdicts(c, libraryVerdicts(c))
	e := expectFor(c)
	o := runCli(bin, dir, c)
	mk := func(class, msg string) *Violation {
		return &Violation{Prop: "C18", Class: class, Msg: trunc(msg, 400), Facts: map[string]string{"sync": fmt.Sprint(e.sync), "contraction": fmt.Sprint(f.Contraction), "typecheck": fmt.Sprint(e.typecheck), "panic_trace": fmt.Sprint(hasPanicTrace(o))}}
	}
	if o.TimedOut {
		return mk("timeout", "the command did not finish within 30 s"), o, f
	}
	cmdline := strings.Join(append(append(append([]string{"grits"}, c.Args...), c.FileArg), c.Extra...), " ")
	shouldSucceed := !e.extra && f.Readable && f.ParseOK && (!e.typecheck || f.TypeOK)
	out := programOutputLines(o)
	// Typechecking explicitly disabled and the program is actually run: the statement's own
	// parenthesis applies. Without the checker the interpreter has no polarities (a bare `fwd`
	// ends in its "unknown polarity" diagnostic even for well-typed programs) and an ill-typed
	// program may fail in any way; nothing is asserted about status or output of such a run.
	if !e.typecheck && e.execute && shouldSucceed {
		if c.FileKind == "annotated-linear" && f.TypeOK && !e.sync && e.chooses {
			// a well-typed linear program whose forwards are annotated needs no type information at
			// run time: it must run to the end without the checker as well
			if hasPanicTrace(o) {
				return mk("panic-trace", fmt.Sprintf("`%s` (annotated linear program, typechecking disabled) died with a Go panic trace: %s", cmdline, trunc(o.Stderr, 200))), o, f
			}
			if o.Exit != 0 {
				return mk("exit-nonzero", fmt.Sprintf("`%s` (annotated linear program, typechecking disabled) exited %d: %s", cmdline, o.Exit, trunc(o.Stderr, 200))), o, f
			}
		}
		return nil, o, f
	}
	if o.Exit != 0 && out > 0 {
		return mk("output-on-failure", fmt.Sprintf("`%s` exited %d but printed %d program output lines", cmdline, o.Exit, out)), o, f
	}
	if !e.execute && out > 0 {
		return mk("ran-despite-noexecute", fmt.Sprintf("`%s` printed %d program output lines", cmdline, out)), o, f
	}
	if !shouldSucceed && out > 0 {
		return mk("ran-despite-error", fmt.Sprintf("`%s` (parse ok=%v, type ok=%v) printed %d program output lines", cmdline, f.ParseOK, f.TypeOK, out)), o, f
	}
	if hasPanicTrace(o) {
		return mk("panic-trace", fmt.Sprintf("`%s` died with a Go panic trace: %s", cmdline, trunc(o.Stderr, 200))), o, f
	}
	if shouldSucceed && o.Exit != 0 {
		return mk("exit-nonzero", fmt.Sprintf("`%s` exited %d on a program that parses and typechecks: %s", cmdline, o.Exit, trunc(o.Stderr, 200))), o, f
	}
	if !shouldSucceed && o.Exit == 0 {
		return mk("exit-zero", fmt.Sprintf("`%s` exited 0 although (extra args=%v, readable=%v, parse ok=%v, typecheck on=%v, type ok=%v)", cmdline, e.extra, f.Readable, f.ParseOK, e.typecheck, f.TypeOK)), o, f
	}
	if !shouldSucceed && strings.TrimSpace(o.Stderr) == "" {
		return mk("no-diagnostic", fmt.Sprintf("`%s` failed with status %d without printing a diagnostic", cmdline, o.Exit)), o, f
	}
	return nil, o, f
}

func init() {
	extraProps["C18"] = func(w *Worker, seed uint64, checks int) ([]string, string) {
		bin := os.Getenv("VERIF_GRITS_BIN")
		if bin == "" {
			return nil, "VERIF_GRITS_BIN not set"
		}
		dir := filepath.Join(w.OutDir, fmt.Sprintf("cli-w%d", w.Out.Worker))
		defer os.RemoveAll(dir)
		return rapidRound(seed, 40, func(rt *rapid.T) {
			if w.expired() {
				return
			}
			rec := newRecorder(rt)
			c := DrawCliCase(rec)
			v, out, f := ExecCliCase(bin, dir, c)
			o := w.Out
			e := expectFor(c)
			if !w.failing {
				o.Cases++
				o.Runs++
				o.Nontrivial++
				o.Extra["file_"+c.FileKind]++
				o.Extra[fmt.Sprintf("exit_%d", out.Exit)]++
				if e.sync {
					o.ModeRuns["--sync (non-polarized)"]++
				} else {
					o.ModeRuns["async"]++
				}
				if !e.typecheck {
					o.Extra["typecheck_disabled"]++
				}
				if !e.execute {
					o.Extra["execute_disabled"]++
				}
				if programOutputLines(out) > 0 {
					o.Extra["runs_with_program_output"]++
				}
				switch c.FileKind {
				case "missing", "directory", "truncated", "empty":
					o.Faults["file_fault_"+c.FileKind]++
				}
				if len(c.Extra) > 0 {
					o.Faults["extra_arguments"]++
				}
				if w.hashes != nil {
					fmt.Fprintf(w.hashes, "R %s\n", hashStr(c.Text+"|"+strings.Join(c.Args, " ")+"|"+c.FileArg+"|"+strings.Join(c.Extra, " ")))
				}
				if len(o.Samples) < 5 && o.Extra["sample_"+c.FileKind] == 0 {
					o.Extra["sample_"+c.FileKind]++
					o.Samples = append(o.Samples, map[string]any{"file_kind": c.FileKind, "args": append(append(append([]string{}, c.Args...), c.FileArg), c.Extra...), "text": trunc(c.Text, 200),
						"library_verdicts": f, "exit": out.Exit, "program_output_lines": programOutputLines(out), "stderr": trunc(out.Stderr, 120)})
				}
			} else {
				o.ShrinkRuns++
			}
			if v == nil {
				return
			}
			if id := matchKnown(w.Known, v, v.Facts); id != "" {
				if !w.failing {
					o.Known[id]++
				}
				return
			}
			if w.failing && v.Class != w.target {
				return
			}
			if !w.failing {
				w.failing, w.target, w.best = true, v.Class, nil
			}
			sz := len(c.Text) + 10*len(c.Args)
			if w.best == nil || sz <= w.bestSz {
				w.best = &replayFile{Property: "C18", Engine: "cli", Draws: append([]int{}, rec.Draws...), Violation: *v, Input: c}
				w.bestSz = sz
			}
			rt.Fatalf("%s", v.Class)
		})
	}
	extraReplays["cli"] = func(w *Worker, rf *replayFile, path string) {
		bin := os.Getenv("VERIF_GRITS_BIN")
		var c *CliCase
		if b, err := json.Marshal(rf.Input); err == nil && rf.Input != nil {
			var cc CliCase
			if json.Unmarshal(b, &cc) == nil && cc.FileArg != "" {
				c = &cc
			}
		}
		if c == nil {
			c = DrawCliCase(&replayChooser{Draws: rf.Draws})
		}
		dir := filepath.Join(w.OutDir, "cli-replay")
		defer os.RemoveAll(dir)
		v, _, _ := ExecCliCase(bin, dir, c)
		if v != nil {
			if id := matchKnown(w.Known, v, v.Facts); id != "" {
				w.Out.Known[id]++
				return
			}
			w.Out.Violations = append(w.Out.Violations, ViolationRec{Violation: *v, Replay: path})
		}
	}
}
