package engine

import (
	"encoding/json"
	"fmt"
	"os"
	"os/exec"
	"path/filepath"
	"sort"
	"strings"
	"testing"

	"grits/process"
	"verifharness/gen"
	"verifharness/sim"

	"pgregory.net/rapid"
)

// C19: one long-lived worker process executes histories of items (parse,
// typecheck, run), each item in its own bubble with a fresh scheduler, while
// everything earlier items left behind (blocked process goroutines, typecheck
// workers of rejected programs, whatever package-level state there is) stays in
// the process. The oracle is the result of the same item executed alone in a
// fresh OS process.

type HistItem struct {
	Kind string     `json:"kind"`
	Text string     `json:"text"`
	Cfg  sim.Config `json:"config"`
}

type ItemResult struct {
	Verdict  string   `json:"verdict"` // parse-error | rejected | accepted
	Late     []string `json:"leftover_prints,omitempty"` // printed by this item's leftovers after its run was over
	Prints   []string `json:"prints"`  // sorted
	Complete bool     `json:"complete"`
	Panics   int      `json:"panics"`
	LogHash  string   `json:"log_hash"`
	Steps    int      `json:"steps"`
	Trouble  string   `json:"trouble,omitempty"`
}

var histKinds = []string{"accepted", "accepted", "accepted", "repeat", "rejected-mutant", "junk-program", "unparseable", "renamed-bodies", "type-stress", "type-stress", "respelled"}

func DrawHistory(ch Chooser) []HistItem {
	n := 2 + ch.Intn(4)
	var items []HistItem
	var family []string
	switch ch.Intn(6) {
	case 1:
		// a family of programs that differ only in how they define the type names A and B
		family = gen.TypeStressFamily(ch.Intn, n)
	case 2:
		// a family of well-typed programs that differ only in the definition of A and whose
		// run-time behaviour depends on A's polarity and shape
		family = gen.RuntimeFamily(ch.Intn, n)
	}
	for i := 0; i < n; i++ {
		k := histKinds[ch.Intn(len(histKinds))]
		if family != nil {
			k = "type-family"
		}
		if k == "repeat" && len(items) == 0 {
			k = "accepted"
		}
		var it HistItem
		it.Kind = k
		switch k {
		case "accepted":
			it.Text = gen.Generate(ch.Intn, gen.Options{Collide: true}).Text()
		case "repeat":
			it = items[ch.Intn(len(items))]
			it.Kind = "repeat"
		case "rejected-mutant":
			p := gen.Generate(ch.Intn, gen.Options{Collide: true})
			gen.ApplyWrongAlias(p, ch.Intn)
			it.Text = p.Text()
		case "junk-program":
			it.Text = gen.JunkProgram(ch.Intn)
		case "unparseable":
			it.Text = gen.MutateBytes(ch.Intn, gen.Generate(ch.Intn, gen.Options{}).Text(), 3)
			if ch.Intn(2) == 1 {
				// the parser gives up early (a definite error, or a character that is no token at all)
				// with several kilobytes of perfectly good declarations still unread behind it
				stop := []string{"prc[ = \n", "#\n", "@ !\n", ") )\n"}[ch.Intn(4)]
				tail := gen.Generate(ch.Intn, gen.Options{Scale: 1}).Text()
				for len(tail) < 9000 {
					tail += "// padding so that the rest of the file is longer than any read buffer\n" + tail
				}
				head := "prc[first] : 1 = print p; close self\n"
				if ch.Intn(2) == 1 {
					head = ""
				}
				it.Text = head + stop + tail
			}
		case "type-family":
			it.Text = family[i]
		case "type-stress":
			// the same few type names (A, B, C) with different definitions from item to item, and
			// equalities between them: what a cache of type facts surviving between runs would confuse
			it.Text = gen.TypeStress(ch.Intn)
		case "respelled":
			p := gen.Generate(ch.Intn, gen.Options{Collide: true})
			gen.ApplyTypeVariants(p, ch.Intn)
			it.Text = p.Text()
		default:
			// same declaration names as an earlier item, different bodies: the shape a
			// name-keyed cache surviving between runs would confuse
			it.Text = gen.Generate(ch.Intn, gen.Options{Collide: true}).Text()
		}
		if k != "repeat" || ch.Intn(2) == 1 {
			it.Cfg = drawRunConfig(ch, allModes, ch.Intn(5) == 1)
			if it.Cfg.Mode == process.NON_POLARIZED_SYNC && (strings.Contains(it.Text, "split") || strings.Contains(it.Text, ", top")) {
				it.Cfg.Mode = process.NORMAL_SYNC // the non-polarized mode's known defect F16 is C01's business
			}
		}
		it.Cfg.KeepLeftovers = true
		// now and then the text reaches the parser through a file (parser.ParseFile, as the command
		// line does): the same unchanged file may then be parsed again by a later item
		if k == "repeat" {
			it.Cfg.ViaFile = it.Cfg.ViaFile || ch.Intn(3) == 1
		} else {
			it.Cfg.ViaFile = ch.Intn(4) == 1
		}
		if len(items) > 0 && items[len(items)-1].Cfg.ViaFile && ch.Intn(2) == 1 {
			it.Cfg.ViaFile = true // files tend to come in runs
		}
		items = append(items, it)
	}
	return items
}

func runItem(t *testing.T, it HistItem) ItemResult {
	res := sim.Run(t, it.Text, it.Cfg)
	var r ItemResult
	switch {
	case res.ParseErr != "":
		r.Verdict = "parse-error"
	case !res.Accepted:
		r.Verdict = "rejected"
	default:
		r.Verdict = "accepted"
		r.Prints = res.PrintMultiset()
		r.Late = res.LeftoverPrints
		r.Complete = res.Complete()
		r.Panics = len(res.Errors)
		r.LogHash = res.LogHash
		r.Steps = res.Steps
	}
	if len(res.ModelErrors) > 0 {
		r.Trouble = strings.Join(res.ModelErrors, "; ")
	}
	return r
}

func itemKey(it HistItem) string {
	b, _ := json.Marshal(it.Cfg)
	return hashStr(it.Text + "|" + string(b))
}

// isolated runs the item alone in a fresh OS process (cached per distinct item).
func (w *Worker) isolated(it HistItem) (ItemResult, error) {
	key := itemKey(it)
	if w.isoCache == nil {
		w.isoCache = map[string]ItemResult{}
	}
	if r, ok := w.isoCache[key]; ok {
		w.Out.Extra["isolated_cache_hits"]++
		return r, nil
	}
	in := filepath.Join(w.OutDir, fmt.Sprintf("iso-w%d-%s.json", w.Out.Worker, key))
	b, _ := json.Marshal(it)
	os.WriteFile(in, b, 0o644)
	defer os.Remove(in)
	defer os.Remove(in + ".out")
	cmd := exec.Command(os.Args[0], "-test.run", "^TestWorker$", "-test.timeout", "0")
	cmd.Env = append(os.Environ(), "VERIF_PROP=C19", "VERIF_ISOLATE="+in, "VERIF_HASHLOG=")
	out, err := cmd.CombinedOutput()
	if err != nil {
		return ItemResult{}, fmt.Errorf("isolated run failed: %v: %s", err, trunc(string(out), 300))
	}
	ob, err := os.ReadFile(in + ".out")
	if err != nil {
		return ItemResult{}, err
	}
	var r ItemResult
	if err := json.Unmarshal(ob, &r); err != nil {
		return ItemResult{}, err
	}
	w.isoCache[key] = r
	w.Out.Extra["isolated_fresh_processes"]++
	return r, nil
}

func sameStrings(a, b []string) bool {
	a, b = append([]string{}, a...), append([]string{}, b...)
	sort.Strings(a)
	sort.Strings(b)
	return eqStrings(a, b)
}

func compareItem(i int, it HistItem, got, want ItemResult) *Violation {
	mk := func(class, msg string) *Violation {
		return &Violation{Prop: "C19", Class: class, Run: i, Mode: modeName[it.Cfg.Mode], Msg: trunc(msg, 400)}
	}
	if got.Verdict != want.Verdict {
		return mk("verdict", fmt.Sprintf("item %d (%s): verdict %q after the history, %q in a fresh process", i, it.Kind, got.Verdict, want.Verdict))
	}
	if got.Verdict != "accepted" {
		return nil
	}
	if !sameStrings(got.Prints, want.Prints) {
		return mk("prints", fmt.Sprintf("item %d (%s, %s): printed %v after the history, %v in a fresh process", i, it.Kind, modeName[it.Cfg.Mode], got.Prints, want.Prints))
	}
	if got.Complete != want.Complete || got.Panics != want.Panics {
		return mk("completion", fmt.Sprintf("item %d (%s): complete=%v panics=%d after the history, complete=%v panics=%d in a fresh process", i, it.Kind, got.Complete, got.Panics, want.Complete, want.Panics))
	}
	if got.LogHash != want.LogHash {
		return mk("trace", fmt.Sprintf("item %d (%s): the event log of the run differs from the one in a fresh process (same program, configuration and schedule vector): %s vs %s, %d vs %d transitions", i, it.Kind, got.LogHash, want.LogHash, got.Steps, want.Steps))
	}
	return nil
}

func init() {
	extraProps["C19"] = func(w *Worker, seed uint64, checks int) ([]string, string) {
		msgs, trouble := rapidRound(seed, 12, func(rt *rapid.T) {
			if w.expired() {
				return
			}
			rec := newRecorder(rt)
			items := DrawHistory(rec)
			if w.inflight == "" {
				w.inflight = filepath.Join(w.OutDir, fmt.Sprintf("inflight-C19-w%d-c%d.json", w.Out.Worker, w.Out.Chunk))
			}
			// if this process dies (a fatal error cannot be recovered) the driver re-runs the history it had in flight
			w.writeInflight(&replayFile{Property: "C19", Engine: "history", Draws: rec.Draws, Input: items, Violation: Violation{Prop: "C19", Class: "death"},
				Note: "the worker process died while executing this history"})
			o := w.Out
			var fail *Violation
			var pendingLate []string
			for i, it := range items {
				got := runItem(w.T, it)
				// what an earlier item's leftovers print after that item was over lands, in production,
				// in the output of whatever runs next: it is charged to this item
				if len(pendingLate) > 0 && got.Verdict == "accepted" {
					got.Prints = append(append([]string{}, got.Prints...), pendingLate...)
					sort.Strings(got.Prints)
					w.Out.Extra["items_charged_with_leftover_output"]++
				}
				pendingLate = got.Late
				if got.Trouble != "" {
					o.Trouble = append(o.Trouble, got.Trouble+" | "+trunc(it.Text, 1500))
					return
				}
				want, err := w.isolated(it)
				if err != nil {
					o.Trouble = append(o.Trouble, err.Error())
					return
				}
				if !w.failing {
					o.Runs++
					o.Extra["item_"+it.Kind]++
					o.Extra["verdict_"+got.Verdict]++
					o.ModeRuns[modeName[it.Cfg.Mode]]++
					if it.Cfg.CancelAt >= 0 {
						o.Faults["item_with_premature_cancel"]++
					}
					if it.Cfg.Monitor {
						o.Faults["monitor_attached_run"]++
					}
					if i > 0 && got.Verdict == "accepted" && items[i-1].Kind != "accepted" && items[i-1].Kind != "repeat" {
						o.Extra["accepted_right_after_rejected_or_unparseable"]++
					}
					if it.Kind == "repeat" {
						o.Extra["repeated_program_items"]++
					}
					if got.Steps >= 10 {
						o.Nontrivial++
					}
				}
				if v := compareItem(i, it, got, want); v != nil && fail == nil {
					if id := matchKnown(w.Known, v, nil); id != "" {
						if !w.failing {
							o.Known[id]++
						}
						continue
					}
					if w.failing && v.Class != w.target {
						continue
					}
					fail = v
				}
			}
			if !w.failing {
				o.Cases++
				o.Extra["items_executed_in_this_process_so_far"] = o.Runs
				if w.hashes != nil {
					var ks []string
					for _, it := range items {
						ks = append(ks, itemKey(it))
					}
					fmt.Fprintf(w.hashes, "R %s\n", hashStr(strings.Join(ks, ",")))
				}
				if len(o.Samples) < 3 {
					var s []map[string]any
					for _, it := range items {
						s = append(s, map[string]any{"kind": it.Kind, "mode": modeName[it.Cfg.Mode], "monitor": it.Cfg.Monitor, "cancel_at": it.Cfg.CancelAt, "text": trunc(it.Text, 160)})
					}
					o.Samples = append(o.Samples, map[string]any{"history": s})
				}
			} else {
				o.ShrinkRuns++
			}
			if fail == nil {
				return
			}
			if !w.failing {
				w.failing, w.target, w.best = true, fail.Class, nil
			}
			sz := 0
			for _, it := range items {
				sz += len(it.Text) + 50
			}
			if w.best == nil || sz <= w.bestSz {
				w.best = &replayFile{Property: "C19", Engine: "history", Draws: append([]int{}, rec.Draws...), Violation: *fail, Input: items,
					Note: "a history violation depends on what the worker process executed before; the replay re-executes this history in a fresh process, which reproduces violations caused by the history itself"}
				w.bestSz = sz
			}
			rt.Fatalf("%s", fail.Class)
		})
		if w.inflight != "" {
			os.Remove(w.inflight)
		}
		return msgs, trouble
	}
	extraReplays["history"] = func(w *Worker, rf *replayFile, path string) {
		var items []HistItem
		if b, err := json.Marshal(rf.Input); err == nil && rf.Input != nil {
			json.Unmarshal(b, &items)
		}
		if len(items) == 0 {
			items = DrawHistory(&replayChooser{Draws: rf.Draws})
		}
		// every item alone in a fresh OS process first: an item that kills its own fresh process is not
		// an isolation matter (and is reported as trouble, not as a violation of C19)
		for _, it := range items {
			if _, err := w.isolated(it); err != nil {
				w.Out.Trouble = append(w.Out.Trouble, err.Error())
				return
			}
		}
		var pendingLate []string
		for i, it := range items {
			it.Cfg.KeepLeftovers = true
			got := runItem(w.T, it)
			if len(pendingLate) > 0 && got.Verdict == "accepted" {
				got.Prints = append(append([]string{}, got.Prints...), pendingLate...)
				sort.Strings(got.Prints)
			}
			pendingLate = got.Late
			want, err := w.isolated(it)
			if err != nil {
				w.Out.Trouble = append(w.Out.Trouble, err.Error())
				return
			}
			if v := compareItem(i, it, got, want); v != nil {
				w.Out.Violations = append(w.Out.Violations, ViolationRec{Violation: *v, Replay: path})
				return
			}
		}
	}
}

// isolateMain is the body of the one-item fresh process.
func isolateMain(t *testing.T, path string) {
	b, err := os.ReadFile(path)
	if err != nil {
		t.Fatal(err)
	}
	var it HistItem
	if err := json.Unmarshal(b, &it); err != nil {
		t.Fatal(err)
	}
	if os.Getenv("VERIF_KEEPLOG") != "" {
		it.Cfg.KeepLog = true
		res := sim.Run(t, it.Text, it.Cfg)
		os.WriteFile(path+".log", []byte(strings.Join(res.Log, "\n")+"\n"), 0o644)
	}
	r := runItem(t, it)
	ob, _ := json.Marshal(r)
	os.WriteFile(path+".out", ob, 0o644)
}
