package engine

import (
	"fmt"
	"math/rand"
	"os"
	"strings"
	"testing"

	"grits/parser"
	"grits/process"
	"verifharness/gen"
)

// TestModesDump prints, for many generated / junk / type-stress texts, the type definitions
// with the modalities the parser inferred and the typechecker's verdict (differential aid).
func TestModesDump(t *testing.T) {
	out := os.Getenv("VERIF_MODES_OUT")
	if out == "" {
		t.Skip()
	}
	f, _ := os.Create(out)
	defer f.Close()
	for seed := int64(0); seed < 6000; seed++ {
		r := rand.New(rand.NewSource(seed))
		var text string
		switch seed % 4 {
		case 0:
			text = gen.Generate(r.Intn, gen.Options{}).Text()
		case 1:
			text = gen.JunkProgram(r.Intn)
		case 2:
			text = gen.TypeStress(r.Intn)
		default:
			p := gen.Generate(r.Intn, gen.Options{})
			gen.ApplyTypeVariants(p, r.Intn)
			text = p.Text()
		}
		procs, assumed, env, err := parser.ParseString(text)
		if err != nil {
			fmt.Fprintf(f, "%d PARSE-ERR\n", seed)
			continue
		}
		var sb strings.Builder
		for _, td := range *env.Types {
			sb.WriteString(td.Name + "=" + td.SessionType.StringWithModality() + "@" + td.Modality.String() + ";")
		}
		env.LogLevels = []process.LogLevel{}
		verdict := "ok"
		if e := process.Typecheck(procs, assumed, env); e != nil {
			verdict = "rej"
		}
		fmt.Fprintf(f, "%d %s %s\n", seed, verdict, sb.String())
	}
}
