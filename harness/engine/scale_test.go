package engine

import (
	"fmt"
	"testing"
)

func TestScaleProbe(t *testing.T) {
	for _, sh := range scaleShapes {
		a := scaleAlloc(sh.make(2000))
		b := scaleAlloc(sh.make(8000))
		fmt.Printf("%-28s alloc(2000)=%d alloc(8000)=%d ratio=%.2f\n", sh.name, a, b, float64(b)/float64(a))
	}
}
