package engine

import (
	"fmt"
	"os"
	"path/filepath"
	"sort"
	"strings"
	"testing"

	"grits/process"
	"verifharness/gen"
	"verifharness/lang"
	"verifharness/ref"
	"verifharness/sim"
)

// SimCase is one case of the simulator-based properties: a program and the
// configurations it is run under. Everything in it is a function of the draws.
type SimCase struct {
	Prop    string
	Opts    gen.Options
	Prog    *lang.Program
	Src     string
	Fault   string // "" or "premature-cancel"
	Runs    []sim.Config
	Twin    *lang.Program // C14: the renamed program
	TwinSrc string
	Labels  map[string]string // C14: label renaming
	Mutated string            // MUT: description of the mutation applied ("" = none)
	RenInfo *gen.Renaming
	StageRen *gen.Renaming // the generator's own respelling stage (not C14's twin)
	Corpus   string        // name of the repository example used instead of a generated program
}

type corpusFile struct{ name, text string }

var corpusCache []corpusFile
var corpusLoaded bool

// corpus returns the closed example programs of the repository (those without `assuming`).
func corpus() []corpusFile {
	if corpusLoaded {
		return corpusCache
	}
	corpusLoaded = true
	files, _ := filepath.Glob("/repo/examples/*.grits")
	more, _ := filepath.Glob("/repo/examples/others/*.grits")
	files = append(files, more...)
	sort.Strings(files)
	for _, f := range files {
		b, err := os.ReadFile(f)
		if err != nil || strings.Contains(string(b), "assuming") {
			continue
		}
		corpusCache = append(corpusCache, corpusFile{filepath.Base(f), string(b)})
	}
	return corpusCache
}

type Violation struct {
	Prop  string `json:"property"`
	Class string `json:"class"`
	Msg   string `json:"msg"`
	Run   int    `json:"run"`
	Known string `json:"known,omitempty"`
	// structural facts used to match known findings
	Mode       string            `json:"mode,omitempty"`
	ParkedKind string            `json:"parked_kind,omitempty"`
	Facts      map[string]string `json:"facts,omitempty"`
}

var modeName = map[process.Execution_Version]string{process.NORMAL_ASYNC: "async", process.NORMAL_SYNC: "sync", process.NON_POLARIZED_SYNC: "np"}

var delays = []int{0, 0, 0, 1, 20}

func drawRunConfig(ch Chooser, modes []process.Execution_Version, cancel bool) sim.Config {
	c := sim.Config{CancelAt: -1}
	if os.Getenv("VERIF_TIER") == "thorough" {
		c.MaxSteps = 8000
	}
	c.Mode = modes[ch.Intn(len(modes))]
	c.Monitor = ch.Intn(4) == 1
	c.DelayMs = delays[ch.Intn(len(delays))]
	c.Strategy = ch.Intn(6)
	if ch.Intn(4) == 1 {
		c.Stalls = ch.Ints(8, 46)
	}
	if cancel {
		c.CancelAt = ch.Intn(150)
	}
	c.Vec = ch.Ints(200, 16)
	return c
}

var (
	allModes  = []process.Execution_Version{process.NORMAL_ASYNC, process.NORMAL_SYNC, process.NON_POLARIZED_SYNC}
	polarized = []process.Execution_Version{process.NORMAL_ASYNC, process.NORMAL_SYNC}
)

// DrawSimCase draws a complete case for property prop.
func DrawSimCase(ch Chooser, prop string) *SimCase {
	c := &SimCase{Prop: prop}
	c.Opts.Collide = ch.Intn(2) == 1
	if os.Getenv("VERIF_TIER") == "thorough" {
		// swarm: the thorough tier mixes the usual sizes with larger programs
		c.Opts.Scale = ch.Intn(2)
	}
	if prop == "C14" {
		c.Opts.DistinctLabels = ch.Intn(3) == 1
	}
	if prop == "C02" {
		c.Opts.MainStructured = ch.Intn(2) == 1
		// second profile: unconsumed roots may contain servers nobody calls; the oracle then
		// compares with what the reference semantics itself leaves alive
		c.Opts.NegativeRoots = c.Opts.MainStructured && ch.Intn(3) == 1
	}
	if (prop == "C01" || prop == "C02" || prop == "C03") && len(corpus()) > 0 && ch.Intn(40) == 1 {
		// CORPUS: one of the repository's own closed example programs (no AST, hence no REF)
		files := corpus()
		f := files[ch.Intn(len(files))]
		c.Prog = &lang.Program{TEnv: lang.TyEnv{}}
		c.Src = f.text
		c.Corpus = f.name
		c.Mutated = "corpus:" + f.name
		modes := polarized
		c.Runs = []sim.Config{drawRunConfig(ch, modes, false)}
		if prop == "C03" {
			c.Runs = []sim.Config{{Mode: process.NORMAL_ASYNC, CancelAt: -1}, drawRunConfig(ch, modes, false)}
		}
		for i := range c.Runs {
			c.Runs[i].MaxSteps = 20000
		}
		return c
	}
	if prop == "C01" && ch.Intn(24) == 1 {
		// NEAR-MISS: ill typed only deep inside a recursive type (one in four is the well-typed
		// control); a sound checker rejects it, an accepted one must still run without protocol error
		control := ch.Intn(4) == 0
		src, desc := gen.NearMiss(ch.Intn, control)
		c.Prog = &lang.Program{TEnv: lang.TyEnv{}}
		c.Src = src
		c.Mutated = "near-miss: " + desc
		c.Runs = []sim.Config{drawRunConfig(ch, allModes, false)}
		return c
	}
	c.Prog = gen.Generate(ch.Intn, c.Opts)
	// generator stages: respell the program (deliberate name coincidences, provider-alias
	// shadowing), respell its types (aliases, unrollings, isomorphic copies), or - for the
	// properties quantified over every *accepted* program - apply a single-edit mutation
	stage := ch.Intn(8)
	if (stage == 7 && prop != "C01") || (stage == 6 && prop != "C01" && prop != "C02") {
		stage = 0
	}
	switch stage {
	case 1, 2:
		c.Prog, c.StageRen = gen.Rename(c.Prog, ch.Intn)
	case 3:
		// C14 compares verdicts under renaming; a payload spelled like the provider alias is
		// (consistently) not something Grits lets every binder do, so that stage is kept out of it
		c.Prog, c.StageRen = gen.Rename(c.Prog, ch.Intn, gen.RenameOpts{ShadowAlias: prop != "C14"})
	case 4:
		gen.ApplyTypeVariants(c.Prog, ch.Intn)
	case 5, 6, 7:
		if prop == "C01" && stage == 7 && ch.Intn(3) == 1 {
			// name-level edits: a use or a binder respelled as another name of the program
			if n := gen.MutateNames(c.Prog, ch.Intn, 2); n > 0 {
				c.Mutated = fmt.Sprintf("names: %d occurrence(s) respelled", n)
			}
		} else if prop == "C01" || prop == "C02" || prop == "C03" {
			c.Mutated = gen.Mutate(c.Prog, ch.Intn)
		}
	}
	c.Src = c.Prog.Text()
	cf := c.Prog.ContractionFree()
	switch prop {
	case "C01":
		if ch.Intn(4) == 1 {
			c.Fault = "premature-cancel"
		}
		c.Runs = []sim.Config{drawRunConfig(ch, allModes, c.Fault != "")}
	case "C02":
		c.Runs = []sim.Config{drawRunConfig(ch, polarized, false)}
	case "C03":
		modes := polarized
		if cf {
			modes = allModes
		}
		c.Runs = []sim.Config{{Mode: process.NORMAL_ASYNC, CancelAt: -1}, drawRunConfig(ch, modes, false), drawRunConfig(ch, modes, false)}
	case "C04":
		modes := polarized
		if cf {
			modes = allModes
		}
		c.Runs = []sim.Config{drawRunConfig(ch, modes, false)}
	case "C14":
		twin, info := gen.Rename(c.Prog, ch.Intn)
		c.Twin, c.TwinSrc, c.Labels, c.RenInfo = twin, twin.Text(), info.Labels, info
		c.Runs = []sim.Config{drawRunConfig(ch, polarized, false)}
	default:
		panic("DrawSimCase: " + prop)
	}
	return c
}

// CaseStats are the per-case measurements the worker aggregates.
type CaseStats struct {
	Rejected     bool
	RejectReason string
	RefInconcl   string
	Runs         []*sim.Result
	TwinRuns     []*sim.Result
	Inconclusive map[string]int
	OtherProps   map[string]int // violations of properties that are not armed in this check
}

type refInfo struct {
	ok      bool
	why     string
	r       *ref.Ref
	labels  []string
	live    int
	pending int
}

func runRef(p *lang.Program) (ri refInfo) {
	defer func() {
		if x := recover(); x != nil {
			ri = refInfo{why: fmt.Sprint("ref panic: ", x)}
		}
	}()
	r := ref.NewRef(p)
	r.Run(20000)
	if r.Err != "" {
		return refInfo{why: r.Err}
	}
	if r.Steps >= 20000 {
		return refInfo{why: "ref step budget"}
	}
	return refInfo{ok: true, r: r, labels: r.Labels(), live: r.Live(), pending: r.Pending()}
}

func eqStrings(a, b []string) bool {
	if len(a) != len(b) {
		return false
	}
	for i := range a {
		if a[i] != b[i] {
			return false
		}
	}
	return true
}

func mapLabels(ls []string, m map[string]string) []string {
	out := make([]string, len(ls))
	for i, l := range ls {
		if n, ok := m[l]; ok {
			out[i] = n
		} else {
			out[i] = l
		}
	}
	sort.Strings(out)
	return out
}

func trunc(s string, n int) string {
	s = strings.ReplaceAll(s, "\n", " ")
	if len(s) > n {
		return s[:n] + "..."
	}
	return s
}

// evalRun computes every oracle on one run and returns the violations found,
// tagged with the property each belongs to.
func evalRun(c *SimCase, idx int, cfg sim.Config, res *sim.Result, ri refInfo, inconcl map[string]int) []Violation {
	var vs []Violation
	facts := map[string]string{"contraction": "no", "closed_channel_seen": "no"}
	if !c.Prog.ContractionFree() {
		facts["contraction"] = "yes"
	}
	if len(res.ProtocolObs) > 0 || res.ClosedOps > 0 {
		facts["closed_channel_seen"] = "yes"
	}
	add := func(prop, class, msg string, tk string) {
		vs = append(vs, Violation{Prop: prop, Class: class, Msg: trunc(msg, 400), Run: idx, Mode: modeName[cfg.Mode], ParkedKind: tk, Facts: facts})
	}
	// ---- C01: no runtime protocol error, in every mode, also after a premature cancellation
	for _, e := range res.Errors {
		add("C01", "panic", fmt.Sprintf("task %s: %s", e.Task, e.Msg), e.Kind)
	}
	for _, o := range res.ProtocolObs {
		add("C01", "closed-channel", o, "")
	}
	if !res.Returned {
		add("C01", "no-return", "InitializeProcesses did not return", "")
	}
	if res.Budget {
		inconcl["step_budget"]++
		return vs
	}
	polar := cfg.Mode != process.NON_POLARIZED_SYNC
	if c.Fault != "" {
		// relaxed, narrow oracle of the fault configuration: what was printed is part of the fault-free result
		if ri.ok && polar && len(res.Errors) == 0 {
			want := map[string]int{}
			for _, l := range ri.labels {
				want[l]++
			}
			for _, l := range res.Prints {
				want[l]--
				if want[l] < 0 {
					add("C01", "cancel-extra-print", fmt.Sprintf("label %q printed more often than in the fault-free semantics %v", l, ri.labels), "")
					break
				}
			}
		}
		return vs
	}
	if len(res.Errors) > 0 && ri.ok && (polar || c.Prog.ContractionFree()) {
		// a run that ends in interpreter errors is C01's business first, but what it printed is
		// also C04's: a different multiset is not "the labels the semantics produces"
		if got := res.PrintMultiset(); !eqStrings(got, ri.labels) {
			add("C04", "multiset", fmt.Sprintf("%s printed %v, semantics prints %v (the run ended with %d interpreter error(s): %s)", modeName[cfg.Mode], got, ri.labels, len(res.Errors), trunc(res.Errors[0].Msg, 120)), "")
		}
	}
	if len(res.Errors) > 0 || res.QuiescentAt < 0 {
		return vs
	}
	// ---- C02: nothing stuck at quiescence (polarized modes)
	if polar {
		senders, others := 0, []string{}
		for _, b := range res.Quiescent {
			if b.State == "op" && b.Kind == "send" {
				senders++
			} else {
				others = append(others, b.Task+":"+b.State+":"+b.Kind)
			}
		}
		if !ri.ok {
			inconcl["c02_no_ref"]++
			// the literal statement still applies when REF is unavailable
			if cfg.Mode == process.NORMAL_ASYNC && senders > 0 {
				add("C02", "stuck", fmt.Sprintf("async: %d senders parked at quiescence", senders), "")
			}
			// a structural mutant (a use removed or doubled, a branch omitted, drop/wait exchanged, a mode
			// changed) keeps the types of the unconsumed roots, which are hereditarily positive in
			// this generator profile: nothing may be left waiting to receive, REF or no REF
			if strings.HasPrefix(c.Mutated, "structure: ") && !c.Opts.NegativeRoots && len(others) > 0 {
				add("C02", "stuck", fmt.Sprintf("%s: %d tasks waiting to receive at quiescence %v in an accepted structural mutant (%s)", modeName[cfg.Mode], len(others), others, c.Mutated), "")
			}
		} else {
			if len(others) != ri.live {
				add("C02", "stuck", fmt.Sprintf("%s: %d tasks not blocked in a send at quiescence %v, semantics leaves %d alive", modeName[cfg.Mode], len(others), others, ri.live), "")
			}
			if cfg.Mode == process.NORMAL_ASYNC && senders != 0 {
				add("C02", "stuck", fmt.Sprintf("async: %d senders parked at quiescence", senders), "")
			}
			if cfg.Mode == process.NORMAL_SYNC && senders != ri.pending {
				add("C02", "count", fmt.Sprintf("sync: %d senders parked, semantics has %d unconsumed messages", senders, ri.pending), "")
			}
		}
	}
	// ---- C04: multiset and causal order against REF
	refComparable := ri.ok && (polar || c.Prog.ContractionFree())
	if refComparable {
		got := res.PrintMultiset()
		if !eqStrings(got, ri.labels) {
			add("C04", "multiset", fmt.Sprintf("%s printed %v, semantics prints %v", modeName[cfg.Mode], got, ri.labels), "")
		} else if ok, why := ri.r.Linearizes(res.Prints); why == "inconclusive" {
			inconcl["linearization_cap"]++
		} else if !ok {
			add("C04", "order", fmt.Sprintf("%s print sequence %v is not a linearisation of the causal order", modeName[cfg.Mode], res.Prints), "")
		}
	} else if !ri.ok {
		inconcl["c04_no_ref"]++
	} else {
		inconcl["c04_np_contraction"]++
	}
	return vs
}

// ExecSimCase runs the case and returns the violations of all properties.
// maxSrc bounds the program text: the interpreter renders the whole body of a process as a
// string at every transition (its log calls evaluate their arguments eagerly), so a run costs
// steps x body size; the thorough tier's larger programs are cut off here, deterministically.
const maxSrc = 24000

func ExecSimCase(t *testing.T, c *SimCase) ([]Violation, *CaseStats, []string) {
	st := &CaseStats{Inconclusive: map[string]int{}, OtherProps: map[string]int{}}
	if len(c.Src) > maxSrc || len(c.TwinSrc) > maxSrc {
		st.Rejected = true
		st.RejectReason = "oversize program skipped"
		st.Inconclusive["oversize_program_skipped"]++
		return nil, st, nil
	}
	var trouble []string
	var vs []Violation
	var ri refInfo
	if c.Mutated != "" {
		ri = refInfo{why: "mutant: reference semantics not consulted"}
	} else {
		ri = runRef(c.Prog)
	}
	if !ri.ok {
		st.RefInconcl = ri.why
	}
	for i, cfg := range c.Runs {
		res := sim.Run(t, c.Src, cfg)
		if !res.Accepted {
			st.Rejected = true
			st.RejectReason = res.ParseErr + res.TypeErr
			if c.Prop == "C14" && c.Twin != nil {
				// verdict half: a rejected original must have a rejected renaming
				tw := sim.Run(t, c.TwinSrc, cfg)
				if tw.Accepted {
					return []Violation{{Prop: "C14", Class: "verdict", Mode: modeName[cfg.Mode], Msg: trunc("the original is rejected ("+st.RejectReason+"), its renaming is accepted", 400)}}, st, nil
				}
			}
			return nil, st, nil
		}
		st.Runs = append(st.Runs, res)
		for _, m := range res.ModelErrors {
			trouble = append(trouble, m)
		}
		if res.Diverged != "" {
			trouble = append(trouble, "replay diverged: "+res.Diverged)
		}
		if len(trouble) > 0 {
			return nil, st, trouble
		}
		vs = append(vs, evalRun(c, i, cfg, res, ri, st.Inconclusive)...)
	}
	if !ri.ok && c.Mutated == "" && !strings.Contains(ri.why, "budget") {
		// the generator's own program confused REF although the real checker accepted it:
		// harness trouble unless the interpreter itself failed too (then C01 reports it)
		c01 := false
		for _, v := range vs {
			if v.Prop == "C01" {
				c01 = true
			}
		}
		if !c01 {
			trouble = append(trouble, "REF failed on an accepted generated program: "+ri.why)
		}
	}
	// ---- C14: the renamed twin behaves like the original (same configuration, same schedule vector)
	if c.Prop == "C14" && c.Twin != nil && len(st.Runs) > 0 {
		cfg := c.Runs[0]
		tw := sim.Run(t, c.TwinSrc, cfg)
		st.TwinRuns = append(st.TwinRuns, tw)
		for _, m := range tw.ModelErrors {
			trouble = append(trouble, m)
		}
		if len(trouble) > 0 {
			return nil, st, trouble
		}
		base := st.Runs[0]
		mk := func(class, msg string) {
			vs = append(vs, Violation{Prop: "C14", Class: class, Run: 0, Mode: modeName[cfg.Mode], Msg: trunc(msg, 400)})
		}
		switch {
		case !tw.Accepted:
			mk("verdict", "the original is accepted, its renaming is rejected: "+tw.ParseErr+tw.TypeErr)
		case base.Budget || tw.Budget:
			st.Inconclusive["step_budget"]++
		case base.Complete() != tw.Complete():
			mk("completion", fmt.Sprintf("original complete=%v (panics %d), renaming complete=%v (panics %d: %s)", base.Complete(), len(base.Errors), tw.Complete(), len(tw.Errors), firstErr(tw)))
		case !eqStrings(mapLabels(base.Prints, c.Labels), tw.PrintMultiset()):
			mk("prints", fmt.Sprintf("original printed %v (renamed labels: %v), renaming printed %v", base.PrintMultiset(), mapLabels(base.Prints, c.Labels), tw.PrintMultiset()))
		case stuckCount(base) != stuckCount(tw):
			mk("completion", fmt.Sprintf("original leaves %d tasks waiting to receive, renaming leaves %d", stuckCount(base), stuckCount(tw)))
		}
	}
	// ---- C03: all runs of one program agree (print multiset + completion)
	if c.Prop == "C03" && c.Fault == "" && len(st.Runs) > 1 {
		base := st.Runs[0]
		for i := 1; i < len(st.Runs); i++ {
			r := st.Runs[i]
			if base.Budget || r.Budget {
				continue
			}
			bc, rc := base.Complete(), r.Complete()
			if bc != rc {
				vs = append(vs, Violation{Prop: "C03", Class: "completion", Run: i, Mode: modeName[c.Runs[i].Mode],
					Msg: fmt.Sprintf("baseline complete=%v, %s run complete=%v (errors %d)", bc, modeName[c.Runs[i].Mode], rc, len(r.Errors))})
				continue
			}
			if !eqStrings(base.PrintMultiset(), r.PrintMultiset()) {
				vs = append(vs, Violation{Prop: "C03", Class: "multiset", Run: i, Mode: modeName[c.Runs[i].Mode],
					Msg: trunc(fmt.Sprintf("baseline printed %v, %s run printed %v", base.PrintMultiset(), modeName[c.Runs[i].Mode], r.PrintMultiset()), 400)})
				continue
			}
			// stuck-ness is part of "runs to completion": same non-sender survivors
			// (polarized runs only: the non-polarized mode does not reclaim dropped providers, by design)
			if c.Runs[i].Mode != process.NON_POLARIZED_SYNC && stuckCount(base) != stuckCount(r) {
				vs = append(vs, Violation{Prop: "C03", Class: "completion", Run: i, Mode: modeName[c.Runs[i].Mode],
					Msg: fmt.Sprintf("baseline leaves %d tasks waiting to receive, %s run leaves %d", stuckCount(base), modeName[c.Runs[i].Mode], stuckCount(r))})
			}
		}
	}
	return vs, st, nil
}

func firstErr(r *sim.Result) string {
	if len(r.Errors) > 0 {
		return r.Errors[0].Msg
	}
	return ""
}

func stuckCount(r *sim.Result) int {
	n := 0
	for _, b := range r.Quiescent {
		if !(b.State == "op" && (b.Kind == "send" || b.Kind == "npsend")) {
			n++
		}
	}
	return n
}
