package engine

import (
	"fmt"
	"math/rand"
	"os"
	"strconv"
	"strings"
	"testing"

	"grits/process"
	"verifharness/gen"
	"verifharness/ref"
	"verifharness/sim"
)

func TestSmoke(t *testing.T) {
	n, _ := strconv.Atoi(os.Getenv("N"))
	if n == 0 {
		n = 200
	}
	stats := map[string]int{}
	for seed := int64(0); seed < int64(n); seed++ {
		r := rand.New(rand.NewSource(seed))
		prog := gen.Generate(r.Intn, gen.Options{Collide: seed%2 == 0})
		src := prog.Text()
		rf := ref.NewRef(prog)
		rf.Run(20000)
		for _, m := range []process.Execution_Version{process.NORMAL_ASYNC, process.NORMAL_SYNC} {
			vec := make([]int, 50)
			for i := range vec {
				vec[i] = r.Intn(16)
			}
			res := sim.Run(t, src, sim.Config{Mode: m, Vec: vec, Strategy: int(seed) % 6, CancelAt: -1, Monitor: seed%3 == 0})
			if !res.Accepted {
				stats["rejected"]++
				if stats["rejected"] < 3 {
					fmt.Println(src, res.ParseErr, res.TypeErr)
				}
				break
			}
			stats["runs"]++
			if len(res.ModelErrors) > 0 {
				stats["MODEL"]++
				fmt.Println(res.ModelErrors)
			}
			if len(res.Errors) > 0 {
				stats["PANIC"]++
				if stats["PANIC"] < 3 {
					fmt.Println(src, res.Errors)
				}
				continue
			}
			if strings.Join(res.PrintMultiset(), ",") != strings.Join(rf.Labels(), ",") {
				stats["MULTISET"]++
				if stats["MULTISET"] < 4 {
					fmt.Println(src, "\nIMPL", len(res.PrintMultiset()), "REF", len(rf.Labels()), rf.Err, "mode", m, "budget", res.Budget)
				}
				continue
			}
			if ok, _ := rf.Linearizes(res.Prints); !ok {
				stats["ORDER"]++
			}
			if m == process.NORMAL_ASYNC && len(res.Quiescent) > 0 {
				stats["STUCK"]++
			}
			stats["steps"] += res.Steps
		}
	}
	fmt.Println(stats)
}
