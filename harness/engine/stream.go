package engine

import (
	"encoding/hex"
	"encoding/json"
	"errors"
	"fmt"
	"io"
	"os"
	"path/filepath"
	"runtime"
	"strings"
	"time"

	"grits/parser"
	"verifharness/gen"

	"pgregory.net/rapid"
)

// C11: parser.ParseReader reading from a simulated stream. The "disk" is the
// io.Reader: seeded chunk sizes (splitting multi-byte runes), data and io.EOF in
// the same call or in separate calls, EOF at every offset, a non-EOF error at a
// drawn offset. Promptness is measured in reader calls, not seconds: once the
// reader has reported EOF/error, at most postEOFLimit further calls may happen
// before ParseReader returns, otherwise the reader aborts the run by panicking
// with a sentinel - a deterministic, replayable "hang".

const postEOFLimit = 1000

type hangSentinel struct{}

type simReader struct {
	data     []byte
	pos      int
	chunks   []int // chunk sizes, cyclic; empty = everything at once
	ci       int
	eofWith  bool // deliver the last bytes together with io.EOF
	errAt    int  // -1: none; otherwise a non-EOF error once pos reaches it
	calls    int
	postEOF  int
	terminal bool
}

func (r *simReader) chunk() int {
	if len(r.chunks) == 0 {
		return 1 << 20
	}
	c := r.chunks[r.ci%len(r.chunks)] + 1
	r.ci++
	return c
}

func (r *simReader) Read(p []byte) (int, error) {
	r.calls++
	if r.terminal {
		r.postEOF++
		if r.postEOF > postEOFLimit {
			panic(hangSentinel{})
		}
	}
	if r.errAt >= 0 && r.pos >= r.errAt {
		r.terminal = true
		return 0, errors.New("injected I/O error")
	}
	if r.pos >= len(r.data) {
		r.terminal = true
		return 0, io.EOF
	}
	n := r.chunk()
	if n > len(p) {
		n = len(p)
	}
	if n > len(r.data)-r.pos {
		n = len(r.data) - r.pos
	}
	if r.errAt >= 0 && r.pos+n > r.errAt {
		n = r.errAt - r.pos
	}
	copy(p, r.data[r.pos:r.pos+n])
	r.pos += n
	if r.pos >= len(r.data) && r.eofWith {
		r.terminal = true
		return n, io.EOF
	}
	return n, nil
}

type parseOutcome struct {
	Res     string
	Hung    bool
	Panic   string
	Blocked bool
}

// parseWith runs the parser in a goroutine of its own: a parser that blocks (for instance on
// its own error channel) must not take the worker down with Go's "all goroutines are asleep"
// abort; it is reported as a hang after a grace period in which no reader call was made.
func parseWith(r *simReader) (out parseOutcome) {
	done := make(chan parseOutcome, 1)
	go func() { done <- parseWithInline(r) }()
	select {
	case out = <-done:
		return out
	case <-time.After(3 * time.Second):
		// texts are at most a few tens of kilobytes and parse in milliseconds; three seconds is a
		// grace period for a badly loaded machine, not a performance bound
		return parseOutcome{Blocked: true}
	}
}

func parseWithInline(r *simReader) (out parseOutcome) {
	defer func() {
		if x := recover(); x != nil {
			if _, ok := x.(hangSentinel); ok {
				out.Hung = true
				return
			}
			out.Panic = fmt.Sprint(x)
		}
	}()
	procs, assumed, env, err := parser.ParseReader(r)
	if err != nil {
		return parseOutcome{Res: "ERR " + err.Error()}
	}
	var sb strings.Builder
	fmt.Fprintf(&sb, "OK procs=%d assumed=%d funcs=%d types=%d\n", len(procs), len(assumed), len(*env.FunctionDefinitions), len(*env.Types))
	for _, p := range procs {
		sb.WriteString(p.String())
		sb.WriteByte('\n')
	}
	for _, f := range *env.FunctionDefinitions {
		sb.WriteString(f.String() + " = " + f.Body.String())
		sb.WriteByte('\n')
	}
	for _, t := range *env.Types {
		sb.WriteString(t.Name + " = " + t.SessionType.String())
		sb.WriteByte('\n')
	}
	return parseOutcome{Res: sb.String()}
}

type StreamCase struct {
	Kind    string `json:"kind"`
	Text    string `json:"text"`
	TextHex string `json:"text_hex,omitempty"` // exact bytes (Text may contain invalid UTF-8)
	Chunks  []int  `json:"chunks"`
	EOFWith bool   `json:"eof_with_data"`
	ErrAt   int    `json:"err_at"`
}

var streamKinds = []string{"generated", "truncated", "byte-mutated", "comment-injected", "junk-program", "token-soup", "random-bytes"}

func DrawStreamCase(ch Chooser) *StreamCase {
	c := &StreamCase{ErrAt: -1}
	k := ch.Intn(len(streamKinds))
	c.Kind = streamKinds[k]
	base := func() string {
		switch ch.Intn(6) {
		case 1, 2:
			return gen.JunkProgram(ch.Intn)
		case 3:
			// unusual definition graphs (alias chains and cycles, mutual recursion): the parser's
			// last stage infers modes over them
			return gen.TypeStress(ch.Intn)
		}
		return gen.Generate(ch.Intn, gen.Options{}).Text()
	}
	switch c.Kind {
	case "generated":
		c.Text = base()
	case "truncated":
		t := base()
		c.Text = t[:ch.Intn(len(t)+1)]
	case "byte-mutated":
		c.Text = gen.MutateBytes(ch.Intn, base(), 4)
	case "comment-injected":
		t := base()
		n := 1 + ch.Intn(3)
		for i := 0; i < n; i++ {
			pos := ch.Intn(len(t) + 1)
			tok := []string{"/*", "*/", "//", "/* x *", "/**/", "/*/", "*"}[ch.Intn(7)]
			t = t[:pos] + tok + t[pos:]
		}
		if ch.Intn(2) == 1 {
			t = t[:ch.Intn(len(t)+1)]
		}
		c.Text = t
	case "junk-program":
		c.Text = gen.JunkProgram(ch.Intn)
	case "token-soup":
		c.Text = gen.TokenSoup(ch.Intn, 60)
	default:
		bs := ch.Ints(80, 256)
		b := make([]byte, len(bs))
		for i, v := range bs {
			b[i] = byte(v)
		}
		c.Text = string(b)
	}
	switch ch.Intn(4) {
	case 0: // everything at once
	case 1:
		c.Chunks = []int{0} // one byte at a time
	default:
		c.Chunks = ch.Ints(12, 64)
	}
	c.EOFWith = ch.Intn(2) == 1
	if ch.Intn(5) == 1 {
		c.ErrAt = ch.Intn(len(c.Text) + 1)
	}
	return c
}

type streamStats struct {
	Calls, PostEOF int
	Delivered      int
}

// ExecStreamCase returns the C11 violation of the case, if any.
func ExecStreamCase(c *StreamCase) (*Violation, streamStats) {
	data := []byte(c.Text)
	r := &simReader{data: data, chunks: c.Chunks, eofWith: c.EOFWith, errAt: c.ErrAt}
	out := parseWith(r)
	st := streamStats{Calls: r.calls, PostEOF: r.postEOF, Delivered: r.pos}
	mk := func(class, msg string) *Violation {
		return &Violation{Prop: "C11", Class: class, Msg: trunc(msg, 300)}
	}
	if out.Panic != "" {
		return mk("panic", "parser panicked: "+out.Panic), st
	}
	if out.Blocked {
		return mk("hang", fmt.Sprintf("ParseReader did not return within 3 s although the reader was not being called: the parser is blocked (input tail %q)", tail(c.Text, 40))), st
	}
	if out.Hung {
		return mk("hang", fmt.Sprintf("ParseReader kept reading after end of input: more than %d Read calls after the reader reported EOF/error (input tail %q)", postEOFLimit, tail(c.Text, 40))), st
	}
	// linear bound on reader calls: every call but a bounded number must deliver at least one byte
	if r.calls > r.pos+100+postEOFLimit {
		return mk("calls", fmt.Sprintf("%d Read calls for %d delivered bytes", r.calls, r.pos)), st
	}
	// chunking independence: same result as the delivered bytes in one piece
	delivered := data[:r.pos]
	ref := parseWith(&simReader{data: delivered, errAt: -1})
	if ref.Hung || ref.Blocked || ref.Panic != "" {
		return mk("hang", "reference parse (single chunk) of the delivered bytes hung or panicked: "+ref.Panic), st
	}
	if ref.Res != out.Res {
		return mk("chunking", fmt.Sprintf("result depends on how the stream was chunked: chunked %q vs whole %q", trunc(out.Res, 120), trunc(ref.Res, 120))), st
	}
	return nil, st
}

func tail(s string, n int) string {
	if len(s) > n {
		return s[len(s)-n:]
	}
	return s
}

func init() {
	extraProps["C11"] = func(w *Worker, seed uint64, checks int) ([]string, string) {
		shrinkTime = "12s" // a blocked parse costs a second per attempt
		if w.Out.Extra["scaling_probes_run"] == 0 {
			// once per worker process: the allocation-volume scaling probes
			w.Out.Extra["scaling_probes_run"] = 1
			for _, sh := range scaleShapes {
				a, b := scaleAlloc(sh.make(2000)), scaleAlloc(sh.make(8000))
				ratio := float64(b) / float64(a+1)
				w.Out.Runs += 2
				w.Out.Cases += 2
				if int(ratio*100) > w.Out.Extra["max_alloc_ratio_x100_for_4x_input"] {
					w.Out.Extra["max_alloc_ratio_x100_for_4x_input"] = int(ratio * 100)
				}
				if ratio > 6.5 {
					v := Violation{Prop: "C11", Class: "superlinear", Msg: fmt.Sprintf("shape %q: parsing 4x the input allocates %.1fx the memory (%d -> %d bytes): work is not linear in the input length", sh.name, ratio, a, b)}
					if id := matchKnown(w.Known, &v, map[string]string{"shape": sh.name}); id != "" {
						w.Out.Known[id]++
						continue
					}
					dir := filepath.Join(w.OutDir, "replays")
					os.MkdirAll(dir, 0o755)
					path := filepath.Join(dir, fmt.Sprintf("C11-superlinear-%s.json", sh.name))
					rf := &replayFile{Property: "C11", Engine: "stream-scale", Violation: v, Input: map[string]any{"shape": sh.name, "n": 2000, "factor": 4}}
					b, _ := json.MarshalIndent(rf, "", " ")
					os.WriteFile(path, b, 0o644)
					w.Out.Violations = append(w.Out.Violations, ViolationRec{Violation: v, Replay: path, Size: 1})
				}
			}
			for _, sh := range depthShapes {
				a, b := scaleAlloc(sh.make(8)), scaleAlloc(sh.make(12))
				ratio := float64(b) / float64(a+1)
				w.Out.Runs += 2
				w.Out.Cases += 2
				if int(ratio*100) > w.Out.Extra["max_alloc_ratio_x100_for_depth_plus_4"] {
					w.Out.Extra["max_alloc_ratio_x100_for_depth_plus_4"] = int(ratio * 100)
				}
				if ratio > 6 {
					v := Violation{Prop: "C11", Class: "superlinear", Msg: fmt.Sprintf("shape %q: four more levels (8 -> 12 lines) multiply the memory allocated by the parser by %.1f (%d -> %d bytes): work grows exponentially with the depth of the definitions", sh.name, ratio, a, b)}
					if id := matchKnown(w.Known, &v, map[string]string{"shape": sh.name}); id != "" {
						w.Out.Known[id]++
						continue
					}
					dir := filepath.Join(w.OutDir, "replays")
					os.MkdirAll(dir, 0o755)
					path := filepath.Join(dir, fmt.Sprintf("C11-superlinear-%s.json", sh.name))
					rf := &replayFile{Property: "C11", Engine: "stream-scale", Violation: v, Input: map[string]any{"shape": sh.name, "depth": 8, "plus": 4}}
					b, _ := json.MarshalIndent(rf, "", " ")
					os.WriteFile(path, b, 0o644)
					w.Out.Violations = append(w.Out.Violations, ViolationRec{Violation: v, Replay: path, Size: 1})
				}
			}
			if len(w.Out.Violations) > 0 {
				return nil, ""
			}
		}
		return rapidRound(seed, checks*4, func(rt *rapid.T) {
			if w.expired() || w.skipRest {
				return
			}
			rec := newRecorder(rt)
			c := DrawStreamCase(rec)
			v, st := ExecStreamCase(c)
			o := w.Out
			if !w.failing {
				o.Cases++
				o.Runs++
				o.Extra["kind_"+c.Kind]++
				o.Extra["reader_calls"] += st.Calls
				o.Extra["bytes_delivered"] += st.Delivered
				if st.PostEOF > o.Extra["max_post_eof_reads"] {
					o.Extra["max_post_eof_reads"] = st.PostEOF
				}
				if c.ErrAt >= 0 {
					o.Faults["non_eof_read_error"]++
				}
				if c.EOFWith {
					o.Faults["eof_delivered_with_data"]++
				}
				if len(c.Chunks) > 0 {
					o.Faults["chunked_reads"]++
				}
				if len(c.Text) >= 20 {
					o.Nontrivial++
					if w.hashes != nil {
						fmt.Fprintf(w.hashes, "R %s\n", hashStr(fmt.Sprintf("%s|%v|%v|%d", c.Text, c.Chunks, c.EOFWith, c.ErrAt)))
						fmt.Fprintf(w.hashes, "P %s\n", hashStr(c.Text))
					}
				}
				if len(o.Samples) < 5 && len(c.Text) > 30 && o.Extra["sample_"+c.Kind] == 0 {
					o.Extra["sample_"+c.Kind]++
					o.Samples = append(o.Samples, map[string]any{"kind": c.Kind, "text": trunc(c.Text, 300), "chunks": c.Chunks, "eof_with_data": c.EOFWith, "err_at": c.ErrAt, "reader_calls": st.Calls, "post_eof_reads": st.PostEOF})
				}
			} else {
				o.ShrinkRuns++
			}
			if v == nil {
				return
			}
			if id := matchKnown(w.Known, v, map[string]string{"kind": c.Kind}); id != "" {
				if !w.failing {
					o.Known[id]++
				}
				return
			}
			if w.failing && v.Class != w.target {
				return
			}
			if !w.failing {
				w.failing, w.target, w.best = true, v.Class, nil
			}
			sz := len(c.Text) + len(c.Chunks)
			if w.best == nil || sz <= w.bestSz {
				c.TextHex = hex.EncodeToString([]byte(c.Text))
				w.best = &replayFile{Property: "C11", Engine: "stream", Draws: append([]int{}, rec.Draws...), Violation: *v, Input: c}
				w.bestSz = sz
			}
			if strings.Contains(v.Msg, "the parser is blocked") {
				// every further attempt would cost a second and leak a goroutine: report this case
				// un-minimised (rapid's shrinker sees the remaining attempts pass and stops)
				w.skipRest = true
			}
			rt.Fatalf("%s", v.Class)
		})
	}
	extraReplays["stream-scale"] = func(w *Worker, rf *replayFile, path string) {
		b, _ := json.Marshal(rf.Input)
		var in struct {
			Shape string `json:"shape"`
		}
		json.Unmarshal(b, &in)
		for _, sh := range scaleShapes {
			if sh.name == in.Shape {
				a, b := scaleAlloc(sh.make(2000)), scaleAlloc(sh.make(8000))
				if ratio := float64(b) / float64(a+1); ratio > 6.5 {
					w.Out.Violations = append(w.Out.Violations, ViolationRec{Violation: Violation{Prop: "C11", Class: "superlinear", Msg: fmt.Sprintf("shape %q: ratio %.1f", sh.name, ratio)}, Replay: path})
				}
			}
		}
		for _, sh := range depthShapes {
			if sh.name == in.Shape {
				a, b := scaleAlloc(sh.make(8)), scaleAlloc(sh.make(12))
				if ratio := float64(b) / float64(a+1); ratio > 6 {
					v := Violation{Prop: "C11", Class: "superlinear", Msg: fmt.Sprintf("shape %q: ratio %.1f", sh.name, ratio)}
					if id := matchKnown(w.Known, &v, map[string]string{"shape": sh.name}); id != "" {
						w.Out.Known[id]++
						return
					}
					w.Out.Violations = append(w.Out.Violations, ViolationRec{Violation: v, Replay: path})
				}
			}
		}
	}
	extraReplays["stream"] = func(w *Worker, rf *replayFile, path string) {
		var c *StreamCase
		if b, err := json.Marshal(rf.Input); err == nil && rf.Input != nil {
			var sc StreamCase
			if json.Unmarshal(b, &sc) == nil && sc.TextHex != "" {
				if raw, err := hex.DecodeString(sc.TextHex); err == nil {
					sc.Text = string(raw)
					c = &sc
				}
			}
		}
		if c == nil {
			c = DrawStreamCase(&replayChooser{Draws: rf.Draws})
		}
		v, _ := ExecStreamCase(c)
		if v != nil && v.Class == rf.Violation.Class {
			w.Out.Violations = append(w.Out.Violations, ViolationRec{Violation: *v, Replay: path})
		}
	}
}

// ---- scaling probes (the "bound linear in len(s)" half of C11) ----
//
// Time is not a usable measure under a loaded simulator; bytes allocated by one parse are:
// they are a deterministic function of the input. Each probe parses the same shape at n and
// 4n units and compares the allocation volumes. Only shapes on which the shipped parser is
// linear are probed (its `statements`, `names` and branch-type lists prepend, which is
// quadratic in the *number of declarations* today and is recorded in DESIGN.md, not chased).

type scaleShape struct {
	name string
	make func(n int) string
}

var scaleShapes = []scaleShape{
	{"case-with-n-branches", func(n int) string {
		var sb strings.Builder
		sb.WriteString("prc[a] : 1 = case b (\n")
		for i := 0; i < n; i++ {
			if i > 0 {
				sb.WriteString("  | ")
			}
			fmt.Fprintf(&sb, "l%d<x> => close self\n", i)
		}
		sb.WriteString(")\n")
		return sb.String()
	}},
	{"n-line-comments", func(n int) string {
		return strings.Repeat("// comment line\n", n) + "prc[a] : 1 = close self\n"
	}},
	{"block-comment-n-lines", func(n int) string {
		return "/*" + strings.Repeat(" x y z\n", n) + "*/ prc[a] : 1 = close self\n"
	}},
	{"n-blank-lines", func(n int) string { return strings.Repeat("\n", n) + "prc[a] : 1 = close self\n" }},
	{"identifier-of-length-n", func(n int) string { return "prc[" + strings.Repeat("a", n) + "] : 1 = close self\n" }},
	{"n-nested-parentheses", func(n int) string {
		if n > 4000 {
			n = 4000 + (n-4000)/8 // goyacc's value stack grows with nesting; keep it moderate
		}
		return "prc[a] : 1 = " + strings.Repeat("(", n) + "close self" + strings.Repeat(")", n) + "\n"
	}},
	{"print-chain-of-length-n", func(n int) string {
		return "prc[a] : 1 = " + strings.Repeat("print l;\n", n) + "close self\n"
	}},
}

// depthShapes grow by a few lines per unit of depth; they are parsed at depth d and d+4 (work
// that doubles per level shows as a factor 16).
var depthShapes = []scaleShape{
	{"type-chain-with-shared-subtypes", func(d int) string {
		var sb strings.Builder
		for i := 0; i < d; i++ {
			fmt.Fprintf(&sb, "type T%d = +{a : T%d, b : T%d}\n", i, i+1, i+1)
		}
		fmt.Fprintf(&sb, "type T%d = 1\n", d)
		return sb.String()
	}},
	{"moded-type-chain-with-shared-subtypes", func(d int) string {
		var sb strings.Builder
		for i := 0; i < d; i++ {
			fmt.Fprintf(&sb, "type T%d = lin &{a : T%d, b : T%d}\n", i, i+1, i+1)
		}
		fmt.Fprintf(&sb, "type T%d = lin 1\n", d)
		return sb.String()
	}},
	{"nested-pairs-of-one-name", func(d int) string {
		t := "A"
		for i := 0; i < d; i++ {
			t = "(" + t + " * " + t + ")"
			if len(t) > 4000 {
				break
			}
		}
		return "type A = 1\ntype B = " + t + "\n"
	}},
	{"alias-chain", func(d int) string {
		var sb strings.Builder
		for i := 0; i < d; i++ {
			fmt.Fprintf(&sb, "type T%d = T%d\n", i, i+1)
		}
		fmt.Fprintf(&sb, "type T%d = 1\nprc[a] : T0 = close self\n", d)
		return sb.String()
	}},
}

func scaleAlloc(text string) uint64 {
	var m0, m1 runtime.MemStats
	runtime.GC()
	runtime.ReadMemStats(&m0)
	parser.ParseReader(&simReader{data: []byte(text), errAt: -1})
	runtime.ReadMemStats(&m1)
	return m1.TotalAlloc - m0.TotalAlloc
}
