package engine

import (
	"encoding/json"
	"fmt"
	"os"
	"path/filepath"
	"runtime/debug"
	"strings"
	"testing"
	"testing/synctest"

	"grits/parser"
	"grits/process"
	"verifharness/gen"

	"pgregory.net/rapid"
)

// C09: the caller of process.Typecheck and the checker's worker goroutine are
// run inside a synctest bubble. The verif hook at the top of the worker reports
// how the worker ended (returned / panicked) while keeping the production order
// "the deferred done-signal fires first, then the panic continues".

type TcCase struct {
	Kind string `json:"kind"`
	Text string `json:"text"`
	// Fault: "" or the name of a fault point in the typecheck worker at which the simulator
	// makes the worker panic (an injected internal failure): the hand-off must turn it into an
	// error value, never into success, and the host must survive.
	Fault string `json:"fault,omitempty"`
}

var tcFaultPoints = []string{"typecheck:start", "typecheck:after-preliminary", "typecheck:after-functions", "typecheck:end"}

var tcKinds = []string{"generated", "junk-program", "byte-mutated", "type-stress", "generated-variant", "name-mutated", "name-mutated", "mutant"}

func DrawTcCase(ch Chooser) *TcCase {
	c := &TcCase{}
	c.Kind = tcKinds[ch.Intn(len(tcKinds))]
	switch c.Kind {
	case "generated":
		c.Text = gen.Generate(ch.Intn, gen.Options{Collide: ch.Intn(2) == 1}).Text()
	case "junk-program":
		c.Text = gen.JunkProgram(ch.Intn)
	case "byte-mutated":
		c.Text = gen.MutateBytes(ch.Intn, gen.Generate(ch.Intn, gen.Options{}).Text(), 3)
	case "type-stress":
		c.Text = gen.TypeStress(ch.Intn)
	case "name-mutated":
		p := gen.Generate(ch.Intn, gen.Options{Collide: ch.Intn(2) == 1})
		gen.MutateNames(p, ch.Intn, 3)
		c.Text = p.Text()
	case "mutant":
		p := gen.Generate(ch.Intn, gen.Options{})
		gen.Mutate(p, ch.Intn)
		c.Text = p.Text()
	default:
		p := gen.Generate(ch.Intn, gen.Options{})
		gen.ApplyTypeVariants(p, ch.Intn)
		c.Text = p.Text()
	}
	if ch.Intn(5) == 1 {
		c.Fault = tcFaultPoints[ch.Intn(len(tcFaultPoints))]
	}
	return c
}

type TcResult struct {
	Parsed       bool
	Verdict      string // "accept" | "reject" | "" (never returned)
	Returned     bool
	WorkerAtRet  string // state of the worker when Typecheck returned: "running", "exited", "panicked: ..."
	WorkerFinal  string // after quiescence
	WorkerLeaked bool   // still alive (durably blocked) after quiescence
	Deadlock     string
	ErrText      string
	FaultFired   bool
}

func typecheckInBubble(t *testing.T, src string, fault string) (res TcResult) {
	func() {
		defer func() {
			if r := recover(); r != nil {
				msg := fmt.Sprint(r)
				if strings.Contains(msg, "deadlock: main bubble goroutine has exited") {
					return
				}
				if strings.Contains(msg, "deadlock: all goroutines in bubble are blocked") {
					res.Deadlock = msg
					return
				}
				panic(r)
			}
		}()
		synctest.Test(t, func(t *testing.T) {
			procs, assumed, env, err := parser.ParseString(src)
			if err != nil {
				return
			}
			res.Parsed = true
			env.LogLevels = []process.LogLevel{}
			worker := "running"
			process.SimTypecheckExit = func(p interface{}) {
				if p != nil {
					worker = "panicked: " + trunc(fmt.Sprint(p), 200)
				} else {
					worker = "exited"
				}
			}
			defer func() { process.SimTypecheckExit = nil; process.SimFault = nil }()
			if fault != "" {
				process.SimFault = func(point string) {
					if point == fault {
						res.FaultFired = true
						panic("injected fault at " + point)
					}
				}
			}
			err = process.Typecheck(procs, assumed, env)
			res.Returned = true
			res.WorkerAtRet = worker
			if err != nil {
				res.Verdict = "reject"
				res.ErrText = err.Error()
				if err.Error() == "" {
					res.Verdict = "reject-empty"
				}
			} else {
				res.Verdict = "accept"
			}
			synctest.Wait() // let the worker run until it exits or is durably blocked
			res.WorkerFinal = worker
			res.WorkerLeaked = worker == "running"
		})
	}()
	return
}

func ExecTcCase(t *testing.T, c *TcCase) (*Violation, TcResult) {
	r := typecheckInBubble(t, c.Text, c.Fault)
	mk := func(class, msg string) *Violation {
		return &Violation{Prop: "C09", Class: class, Msg: trunc(msg, 400)}
	}
	if !r.Parsed {
		return nil, r
	}
	if !r.Returned {
		return mk("hang", "process.Typecheck never returned: caller and worker both blocked ("+trunc(r.Deadlock, 120)+")"), r
	}
	if strings.HasPrefix(r.WorkerFinal, "panicked") {
		if r.Verdict == "accept" {
			return mk("success-after-panic", "Typecheck reported success although the checker "+r.WorkerFinal), r
		}
		return mk("worker-panic", "the checker goroutine "+r.WorkerFinal+" (verdict "+r.Verdict+")"), r
	}
	if r.Verdict == "accept" && r.WorkerFinal != "exited" {
		return mk("success-without-completion", "Typecheck reported success but the checker goroutine is "+r.WorkerFinal), r
	}
	if r.FaultFired {
		// fault configuration: the injected failure must surface as an error value
		if r.Verdict == "accept" {
			return mk("success-after-panic", "an internal failure was injected at "+c.Fault+" and Typecheck still reported success"), r
		}
		return nil, r
	}
	if strings.HasPrefix(r.ErrText, "internal typechecker error") {
		return mk("internal-failure", "the checker failed internally (recovered panic): "+r.ErrText), r
	}
	if r.Verdict == "reject-empty" {
		return mk("empty-error", "rejected without a descriptive error"), r
	}
	return nil, r
}

func (w *Worker) writeInflight(rf *replayFile) {
	if w.inflight == "" {
		return
	}
	b, _ := json.Marshal(rf)
	os.WriteFile(w.inflight, b, 0o644)
}

func init() {
	extraProps["C09"] = func(w *Worker, seed uint64, checks int) ([]string, string) {
		debug.SetMaxStack(64 << 20)
		if w.inflight == "" {
			w.inflight = filepath.Join(w.OutDir, fmt.Sprintf("inflight-C09-w%d-c%d.json", w.Out.Worker, w.Out.Chunk))
		}
		msgs, trouble := rapidRound(seed, checks*2, func(rt *rapid.T) {
			if w.expired() {
				return
			}
			rec := newRecorder(rt)
			c := DrawTcCase(rec)
			w.writeInflight(&replayFile{Property: "C09", Engine: "typecheck", Draws: rec.Draws, Input: c, Violation: Violation{Prop: "C09", Class: "death"}})
			v, r := ExecTcCase(w.T, c)
			o := w.Out
			if !w.failing {
				o.Cases++
				if !r.Parsed {
					o.Extra["unparseable_skipped"]++
				} else {
					o.Runs++
					o.Extra["kind_"+c.Kind]++
					o.Extra["verdict_"+r.Verdict]++
					if r.FaultFired {
						o.Faults["injected_worker_panic_"+c.Fault]++
					}
					if r.WorkerLeaked {
						o.Extra["leaked_workers(blocked for ever, harmless)"]++
					}
					if r.WorkerAtRet == "running" && r.WorkerFinal == "exited" {
						o.Extra["worker_finished_after_return"]++
					}
					o.Nontrivial++
					if w.hashes != nil {
						fmt.Fprintf(w.hashes, "R %s\n", hashStr(c.Text))
					}
					if len(o.Samples) < 6 && o.Extra["sample_"+c.Kind+r.Verdict] == 0 {
						o.Extra["sample_"+c.Kind+r.Verdict]++
						o.Samples = append(o.Samples, map[string]any{"kind": c.Kind, "text": trunc(c.Text, 400), "verdict": r.Verdict, "worker_at_return": r.WorkerAtRet, "worker_after_quiescence": r.WorkerFinal})
					}
				}
			} else {
				o.ShrinkRuns++
			}
			if v == nil {
				return
			}
			if id := matchKnown(w.Known, v, map[string]string{"kind": c.Kind}); id != "" {
				if !w.failing {
					o.Known[id]++
				}
				return
			}
			if w.failing && v.Class != w.target {
				return
			}
			if !w.failing {
				w.failing, w.target, w.best = true, v.Class, nil
			}
			if w.best == nil || len(c.Text) <= w.bestSz {
				w.best = &replayFile{Property: "C09", Engine: "typecheck", Draws: append([]int{}, rec.Draws...), Violation: *v, Input: c}
				w.bestSz = len(c.Text)
			}
			rt.Fatalf("%s", v.Class)
		})
		os.Remove(w.inflight)
		return msgs, trouble
	}
	extraReplays["typecheck"] = func(w *Worker, rf *replayFile, path string) {
		debug.SetMaxStack(64 << 20)
		var c *TcCase
		if b, err := json.Marshal(rf.Input); err == nil && rf.Input != nil {
			var tc TcCase
			if json.Unmarshal(b, &tc) == nil && tc.Text != "" {
				c = &tc
			}
		}
		if c == nil {
			c = DrawTcCase(&replayChooser{Draws: rf.Draws})
		}
		v, _ := ExecTcCase(w.T, c)
		if v != nil {
			w.Out.Violations = append(w.Out.Violations, ViolationRec{Violation: *v, Replay: path})
		}
	}
}
