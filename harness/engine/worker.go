package engine

import (
	"bytes"
	"crypto/sha256"
	"encoding/base64"
	"encoding/gob"
	"encoding/hex"
	"encoding/json"
	"flag"
	"fmt"
	"os"
	"path/filepath"
	"strconv"
	"strings"
	"testing"
	"time"

	"verifharness/lang"
	"verifharness/sim"

	"pgregory.net/rapid"
)

// ---- known findings ----

type KnownFinding struct {
	ID       string            `json:"id"`
	Property string            `json:"property"`
	Status   string            `json:"status"` // "known" | "fixed"
	Commit   string            `json:"commit,omitempty"`
	What     string            `json:"what"`
	Match    map[string]string `json:"match,omitempty"`
}

type KnownFile struct {
	Findings []KnownFinding `json:"findings"`
}

func loadKnown(path string) []KnownFinding {
	if path == "" {
		return nil
	}
	b, err := os.ReadFile(path)
	if err != nil {
		panic("cannot read known findings: " + err.Error())
	}
	var kf KnownFile
	if err := json.Unmarshal(b, &kf); err != nil {
		panic("known findings: " + err.Error())
	}
	return kf.Findings
}

// matchKnown: a violation is a known finding only if it belongs to the same
// property and every match field of a "known" entry agrees. "fixed" entries
// suppress nothing.
func matchKnown(kfs []KnownFinding, v *Violation, extra map[string]string) string {
	for _, k := range kfs {
		if k.Status != "known" || k.Property != v.Prop || len(k.Match) == 0 {
			continue
		}
		ok := true
		for f, want := range k.Match {
			var got string
			switch f {
			case "class":
				got = v.Class
			case "mode":
				got = v.Mode
			case "parked_kind":
				got = v.ParkedKind
			case "msg_contains":
				if !strings.Contains(v.Msg, want) {
					ok = false
				}
				continue
			default:
				if e, has := extra[f]; has {
					got = e
				} else {
					ok = false
					continue
				}
			}
			if got != want {
				ok = false
			}
		}
		if ok {
			return k.ID
		}
	}
	return ""
}

// ---- worker output ----

type ViolationRec struct {
	Violation
	Replay string `json:"replay"`
	Size   int    `json:"size"`
}

type WorkerOut struct {
	Prop         string         `json:"property"`
	Tier         string         `json:"tier"`
	Seed         uint64         `json:"seed"`
	Worker       int            `json:"worker"`
	Chunk        int            `json:"chunk"`
	Cases        int            `json:"cases"`
	Runs         int            `json:"runs"`
	Rejected     int            `json:"gen_rejected"`
	Inconclusive map[string]int `json:"inconclusive"`
	OtherProps   map[string]int `json:"other_property_violations"`
	Probes       map[string]int `json:"probes"`
	Faults       map[string]int `json:"faults"`
	ModeRuns     map[string]int `json:"mode_runs"`
	Strategy     map[string]int `json:"strategy_runs"`
	FakeNs       int64          `json:"fake_ns"`
	Steps        int64          `json:"steps"`
	Tasks        int64          `json:"tasks"`
	Nontrivial   int            `json:"nontrivial_runs"`
	HashFile     string         `json:"hash_file"`
	Samples      []any          `json:"samples"`
	Violations   []ViolationRec `json:"violations"`
	Known        map[string]int `json:"known_hits"`
	KnownExample map[string]any `json:"known_examples"`
	Trouble      []string       `json:"trouble"`
	WallS        float64        `json:"wall_s"`
	Rounds       int            `json:"rapid_rounds"`
	ShrinkRuns   int            `json:"shrink_runs"`
	Extra        map[string]int `json:"extra"`
}

func newOut() *WorkerOut {
	return &WorkerOut{Inconclusive: map[string]int{}, OtherProps: map[string]int{}, Probes: map[string]int{}, Faults: map[string]int{},
		ModeRuns: map[string]int{}, Strategy: map[string]int{}, Known: map[string]int{}, KnownExample: map[string]any{}, Extra: map[string]int{}}
}

// ---- rapid plumbing ----

type recStop struct{}

type recTB struct {
	failed bool
	msgs   []string
}

func (r *recTB) Helper()                  {}
func (r *recTB) Name() string             { return "verif" }
func (r *recTB) Logf(f string, a ...any)  {}
func (r *recTB) Log(a ...any)             {}
func (r *recTB) Skipf(f string, a ...any) { panic(recStop{}) }
func (r *recTB) Skip(a ...any)            { panic(recStop{}) }
func (r *recTB) SkipNow()                 { panic(recStop{}) }
func (r *recTB) Errorf(f string, a ...any) {
	r.failed = true
	r.msgs = append(r.msgs, fmt.Sprintf(f, a...))
}
func (r *recTB) Error(a ...any)            { r.failed = true; r.msgs = append(r.msgs, fmt.Sprint(a...)) }
func (r *recTB) Fatalf(f string, a ...any) { r.Errorf(f, a...); panic(recStop{}) }
func (r *recTB) Fatal(a ...any)            { r.Error(a...); panic(recStop{}) }
func (r *recTB) FailNow()                  { r.failed = true; panic(recStop{}) }
func (r *recTB) Fail()                     { r.failed = true }
func (r *recTB) Failed() bool              { return r.failed }

// rapidRound runs one rapid.Check with the given seed and number of cases.
// It returns the messages rapid reported (empty = all cases passed).
// shrinkTime bounds rapid's minimisation (some failures cost seconds per attempt).
var shrinkTime = "60s"

func rapidRound(seed uint64, checks int, prop func(*rapid.T)) (msgs []string, trouble string) {
	if seed == 0 {
		seed = 1
	}
	flag.Set("rapid.seed", strconv.FormatUint(seed, 10))
	flag.Set("rapid.checks", strconv.Itoa(checks))
	flag.Set("rapid.nofailfile", "true")
	flag.Set("rapid.shrinktime", shrinkTime)
	tb := &recTB{}
	func() {
		defer func() {
			if r := recover(); r != nil {
				if _, ok := r.(recStop); ok {
					return
				}
				trouble = fmt.Sprintf("panic inside rapid (nondeterministic property or harness bug): %v", r)
			}
		}()
		rapid.Check(tb, prop)
	}()
	return tb.msgs, trouble
}

// ---- the worker ----

type Worker struct {
	T       *testing.T
	Out     *WorkerOut
	OutDir  string
	Known   []KnownFinding
	hashes  *os.File
	failing bool
	target  string
	best    *replayFile
	bestSz  int
	hashLog *os.File
	skipRest bool      // set by a property function that must not be re-run (reset after the round)
	deadline time.Time // end of this worker's budget: property functions return at once after it
	inflight string
	isoCache map[string]ItemResult
}

type replayRun struct {
	Config   sim.Config `json:"config"`
	Schedule []string   `json:"schedule"`
	LogHash  string     `json:"log_hash"`
}

type replayFile struct {
	Property  string      `json:"property"`
	Engine    string      `json:"engine"`
	Seed      uint64      `json:"seed"`
	Draws     []int       `json:"draws"`
	Program   string      `json:"program"`
	Twin      string      `json:"twin_program,omitempty"`
	Fault     string      `json:"fault,omitempty"`
	Runs      []replayRun `json:"runs,omitempty"`
	Violation Violation   `json:"violation"`
	Note      string      `json:"note,omitempty"`
	Input     any         `json:"input,omitempty"`
	Tier      string      `json:"tier,omitempty"` // the draw list is interpreted under this tier's generator settings
	// Case is the complete simulated case (program AST, twin, run configurations) in a
	// generator-independent encoding (base64 of encoding/gob): the replay does not go through the
	// generator again, so it survives later changes to it. Draws are kept for the record.
	Case string `json:"case_gob,omitempty"`
}

func init() {
	for _, t := range []any{&lang.Send{}, &lang.Recv{}, &lang.Sel{}, &lang.Case{}, &lang.New{}, &lang.Call{}, &lang.Close{}, &lang.Wait{}, &lang.Fwd{},
		&lang.Split{}, &lang.Drop{}, &lang.Print{}, &lang.Cast{}, &lang.Shift{}} {
		gob.Register(t)
	}
}

func encodeCase(c *SimCase) string {
	var buf bytes.Buffer
	if err := gob.NewEncoder(&buf).Encode(c); err != nil {
		return ""
	}
	return base64.StdEncoding.EncodeToString(buf.Bytes())
}

func decodeCase(s string) *SimCase {
	raw, err := base64.StdEncoding.DecodeString(s)
	if err != nil {
		return nil
	}
	var c SimCase
	if err := gob.NewDecoder(bytes.NewReader(raw)).Decode(&c); err != nil {
		return nil
	}
	return &c
}

func hashStr(s string) string {
	h := sha256.Sum256([]byte(s))
	return hex.EncodeToString(h[:8])
}

func caseSize(c *SimCase) int {
	n := c.Prog.Size()
	for _, r := range c.Runs {
		for _, v := range r.Vec {
			if v != 0 {
				n++
			}
		}
		n += len(r.Stalls)
		if r.Monitor {
			n++
		}
		if r.DelayMs > 0 {
			n++
		}
		if r.Strategy != 0 {
			n++
		}
	}
	return n
}

func (w *Worker) account(c *SimCase, st *CaseStats) {
	o := w.Out
	o.Cases++
	if st.Rejected && st.RejectReason == "oversize program skipped" {
		o.Inconclusive["oversize_program_skipped"]++
		return
	}
	if strings.HasPrefix(c.Mutated, "near-miss") {
		switch {
		case strings.Contains(c.Mutated, "control=true") && st.Rejected:
			// the control spelling is well typed: rejections would make the probe vacuous (visible
			// in the evidence; completeness of the checker is not C01's business)
			o.Extra["near_miss_controls_REJECTED"]++
		case strings.Contains(c.Mutated, "control=true"):
			o.Extra["near_miss_controls_accepted_and_run"]++
		case st.Rejected:
			o.Extra["near_miss_programs_rejected_by_real_checker"]++
		default:
			o.Extra["near_miss_programs_accepted_and_run"]++
		}
		if st.Rejected {
			return
		}
	}
	if st.Rejected && c.Mutated != "" {
		o.Extra["mutants_rejected_by_real_checker"]++
		return
	}
	if st.Rejected {
		o.Rejected++
		if o.Extra["rejected_samples"] < 2 {
			o.Extra["rejected_samples"]++
			o.Samples = append(o.Samples, map[string]any{"kind": "generated program rejected by the real checker (skipped)", "program": c.Src, "reason": trunc(st.RejectReason, 200)})
		}
		return
	}
	if st.RefInconcl != "" {
		o.Inconclusive["ref:"+trunc(st.RefInconcl, 40)]++
	}
	for k, v := range st.Inconclusive {
		o.Inconclusive[k] += v
	}
	if w.hashes != nil {
		fmt.Fprintf(w.hashes, "P %s\n", hashStr(c.Src))
	}
	ft := c.Prog.Features()
	for name, n := range map[string]int{"split": ft.Split, "drop": ft.Drop, "fwd": ft.Fwd, "multi_name_provider": ft.MultiProv, "shift": ft.Shift, "cast": ft.Cast,
		"exec": ft.Exec, "explicit_provider_def": ft.ExplicitProv, "call_with_2+_args": ft.MultiArgCall, "call_with_self_arg": ft.SelfArgCall, "three_way_choice": ft.ThreeWay} {
		if n > 0 {
			o.Probes["programs_with_"+name]++
		}
	}
	if ft.Modes > 1 {
		o.Probes["programs_with_two_modes"]++
	}
	if c.RenInfo != nil {
		o.Extra["ren_colliding_binder_spellings"] += c.RenInfo.Collisions
		if c.RenInfo.Collisions > 0 {
			o.Extra["ren_cases_with_collisions"]++
		}
		if c.RenInfo.Permuted {
			o.Extra["ren_declarations_permuted"]++
		}
		if c.RenInfo.CrossNamespace > 0 {
			o.Extra["ren_function_spelled_like_type_channel_or_label"]++
		}
		if c.RenInfo.FuncsRen > 0 {
			o.Extra["ren_functions_renamed"]++
		}
		if c.RenInfo.TypesRen > 0 {
			o.Extra["ren_types_renamed"]++
		}
		if c.RenInfo.BranchesRen > 0 {
			o.Extra["ren_branch_labels_renamed"]++
		}
		if len(c.RenInfo.Labels) > 0 {
			o.Extra["ren_print_labels_renamed"]++
		}
		o.Runs += len(st.TwinRuns)
	}
	if c.Corpus != "" {
		o.Extra["corpus_programs_run"]++
		o.Extra["corpus:"+c.Corpus]++
	} else if c.Mutated != "" {
		o.Extra["mutants_accepted_and_run"]++
	}
	if c.StageRen != nil {
		o.Extra["respelled_programs"]++
		if c.StageRen.AliasShadows > 0 {
			o.Extra["respelled_with_alias_shadowing_payload"]++
		}
	}
	for i, r := range st.Runs {
		o.Runs++
		cfg := c.Runs[i]
		o.ModeRuns[modeName[cfg.Mode]]++
		o.Strategy[strconv.Itoa(cfg.Strategy)]++
		o.FakeNs += r.FakeNs
		o.Steps += int64(r.Steps)
		o.Tasks += int64(r.Tasks)
		for k, v := range r.Probes {
			o.Probes[k] += v
		}
		if r.StallsFired > 0 {
			o.Faults["stall_before_step(<=45ms fake)"] += r.StallsFired
		}
		if cfg.DelayMs > 0 {
			o.Faults["configured_delay_run"]++
		}
		if cfg.Monitor {
			o.Faults["monitor_attached_run"]++
		}
		if r.Cancelled {
			o.Faults["premature_cancel_cut_run_short"]++
		} else if cfg.CancelAt >= 0 {
			o.Faults["premature_cancel_after_natural_end"]++
		}
		if r.Lost > 0 {
			o.Faults["task_lost_after_cancel"] += r.Lost
		}
		nontrivial := r.Tasks >= 3 && r.Steps >= 10
		if nontrivial {
			o.Nontrivial++
			if w.hashes != nil {
				fmt.Fprintf(w.hashes, "R %s\n", hashStr(hashStr(c.Src)+r.LogHash+modeName[cfg.Mode]))
				fmt.Fprintf(w.hashes, "Q %s\n", hashStr(fmt.Sprint(r.Quiescent)))
			}
		}
		if w.hashLog != nil {
			fmt.Fprintf(w.hashLog, "%d %d %s %s %d\n", o.Cases, i, hashStr(c.Src), r.LogHash, r.Steps)
		}
	}
	if len(o.Samples) < 4 && len(st.Runs) > 0 && st.Runs[0].Steps >= 10 {
		r := st.Runs[0]
		sched := r.Schedule
		if len(sched) > 12 {
			sched = append(append([]string{}, sched[:12]...), fmt.Sprintf("... (%d transitions)", len(r.Schedule)))
		}
		o.Samples = append(o.Samples, map[string]any{"program": c.Src, "fault": c.Fault, "mode": modeName[c.Runs[0].Mode], "monitor": c.Runs[0].Monitor,
			"delay_ms": c.Runs[0].DelayMs, "strategy": c.Runs[0].Strategy, "schedule_prefix": sched, "prints": r.Prints, "quiescent": r.Quiescent, "tasks": r.Tasks})
	}
}

// SimProperty is the rapid property for the simulator-based checks.
// expired: the worker's budget (plus a quarter) is used up and no failure is being minimised:
// the remaining cases of the current rapid round pass trivially so that the round ends.
func (w *Worker) expired() bool {
	return !w.failing && !w.deadline.IsZero() && time.Now().After(w.deadline)
}

func (w *Worker) SimProperty(prop string, draw func(Chooser, string) *SimCase) func(rt *rapid.T) {
	return func(rt *rapid.T) {
		if w.expired() {
			return
		}
		rec := newRecorder(rt)
		c := draw(rec, prop)
		vs, st, trouble := ExecSimCase(w.T, c)
		if len(trouble) > 0 {
			for _, m := range trouble {
				if len(w.Out.Trouble) < 20 {
					w.Out.Trouble = append(w.Out.Trouble, m+" | program: "+trunc(c.Src, 2000)+fmt.Sprintf(" | draws: %v", rec.Draws))
				}
			}
			return
		}
		if !w.failing {
			w.account(c, st)
		} else {
			w.Out.ShrinkRuns++
		}
		if st.Rejected && len(vs) == 0 {
			return
		}
		var fail *Violation
		for i := range vs {
			v := &vs[i]
			if v.Prop != prop {
				if !w.failing {
					w.Out.OtherProps[v.Prop+":"+v.Class]++
				}
				continue
			}
			if id := matchKnown(w.Known, v, v.Facts); id != "" {
				if !w.failing {
					w.Out.Known[id]++
					if _, ok := w.Out.KnownExample[id]; !ok {
						ex := map[string]any{"program": c.Src, "msg": v.Msg, "mode": v.Mode}
						// a replay file for the known finding too (smallest is not attempted)
						rf := &replayFile{Property: prop, Engine: "sim", Draws: append([]int{}, rec.Draws...), Program: c.Src, Twin: c.TwinSrc, Fault: c.Fault, Violation: *v, Tier: os.Getenv("VERIF_TIER"), Case: encodeCase(c), Note: "known finding " + id}
						for i, r := range st.Runs {
							rf.Runs = append(rf.Runs, replayRun{Config: c.Runs[i], Schedule: r.Schedule, LogHash: r.LogHash})
						}
						dir := filepath.Join(w.OutDir, "known")
						os.MkdirAll(dir, 0o755)
						path := filepath.Join(dir, fmt.Sprintf("%s-%s-w%s-c%s.json", id, prop, os.Getenv("VERIF_WORKER"), os.Getenv("VERIF_CHUNK")))
						if b, err := json.MarshalIndent(rf, "", " "); err == nil && os.WriteFile(path, b, 0o644) == nil {
							ex["replay"] = path
						}
						w.Out.KnownExample[id] = ex
					}
				}
				continue
			}
			if w.failing && v.Class != w.target {
				continue
			}
			if fail == nil {
				fail = v
			}
		}
		if fail == nil {
			return
		}
		if !w.failing {
			w.failing = true
			w.target = fail.Class
			w.best = nil
		}
		sz := caseSize(c)
		if w.best == nil || sz <= w.bestSz {
			rf := &replayFile{Property: prop, Engine: "sim", Draws: append([]int{}, rec.Draws...), Program: c.Src, Twin: c.TwinSrc, Fault: c.Fault, Violation: *fail, Tier: os.Getenv("VERIF_TIER"), Case: encodeCase(c)}
			for i, r := range st.Runs {
				rf.Runs = append(rf.Runs, replayRun{Config: c.Runs[i], Schedule: r.Schedule, LogHash: r.LogHash})
			}
			w.best, w.bestSz = rf, sz
		}
		rt.Fatalf("%s", fail.Class)
	}
}

// finishRound is called after each rapidRound: writes the replay file of a
// failure, if there was one.
func (w *Worker) finishRound(seed uint64, msgs []string) {
	w.skipRest = false
	if !w.failing {
		for _, m := range msgs {
			if !strings.Contains(m, "only generated") {
				w.Out.Trouble = append(w.Out.Trouble, "rapid: "+trunc(m, 300))
			}
		}
		return
	}
	w.failing = false
	if w.best == nil {
		w.Out.Trouble = append(w.Out.Trouble, "failure without a recorded case")
		return
	}
	w.best.Seed = seed
	dir := filepath.Join(w.OutDir, "replays")
	os.MkdirAll(dir, 0o755)
	name := fmt.Sprintf("%s-%s-%d.json", w.best.Property, w.best.Violation.Class, seed)
	path := filepath.Join(dir, name)
	b, _ := json.MarshalIndent(w.best, "", " ")
	os.WriteFile(path, b, 0o644)
	w.Out.Violations = append(w.Out.Violations, ViolationRec{Violation: w.best.Violation, Replay: path, Size: w.bestSz})
	w.best = nil
}

func envInt(k string, d int) int {
	if v := os.Getenv(k); v != "" {
		n, err := strconv.Atoi(v)
		if err == nil {
			return n
		}
	}
	return d
}

func envU64(k string, d uint64) uint64 {
	if v := os.Getenv(k); v != "" {
		n, err := strconv.ParseUint(v, 10, 64)
		if err == nil {
			return n
		}
	}
	return d
}

// RunWorker is the body of TestWorker.
func RunWorker(t *testing.T) {
	prop := os.Getenv("VERIF_PROP")
	if prop == "" {
		t.Skip("VERIF_PROP not set")
	}
	if p := os.Getenv("VERIF_ISOLATE"); p != "" {
		isolateMain(t, p)
		return
	}
	start := time.Now()
	w := &Worker{T: t, Out: newOut(), OutDir: os.Getenv("VERIF_OUTDIR")}
	if w.OutDir == "" {
		w.OutDir = "."
	}
	o := w.Out
	o.Prop, o.Tier = prop, os.Getenv("VERIF_TIER")
	o.Seed = envU64("VERIF_SEED", 1)
	o.Worker, o.Chunk = envInt("VERIF_WORKER", 0), envInt("VERIF_CHUNK", 0)
	w.Known = loadKnown(os.Getenv("VERIF_KNOWN"))
	budget := time.Duration(envInt("VERIF_BUDGET_MS", 20000)) * time.Millisecond
	w.deadline = start.Add(budget + budget/4)
	perRound := envInt("VERIF_ROUND_CASES", 150)
	maxViol := envInt("VERIF_MAX_VIOLATIONS", 2)
	tag := fmt.Sprintf("%s-w%d-c%d", prop, o.Worker, o.Chunk)
	if hf, err := os.Create(filepath.Join(w.OutDir, tag+".hashes")); err == nil {
		w.hashes = hf
		o.HashFile = hf.Name()
		defer hf.Close()
	}
	if p := os.Getenv("VERIF_HASHLOG"); p != "" {
		if f, err := os.Create(p); err == nil {
			w.hashLog = f
			defer f.Close()
		}
	}
	defer func() {
		o.WallS = time.Since(start).Seconds()
		b, _ := json.MarshalIndent(o, "", " ")
		os.WriteFile(filepath.Join(w.OutDir, tag+".json"), b, 0o644)
	}()
	if rp := os.Getenv("VERIF_REPLAY"); rp != "" {
		w.replay(rp)
		return
	}
	maxRounds := envInt("VERIF_MAX_ROUNDS", 1<<30)
	for round := 0; round < maxRounds && time.Since(start) < budget && len(o.Violations) < maxViol && len(o.Trouble) == 0; round++ {
		seed := o.Seed*1000003 + uint64(o.Worker)*7919 + uint64(o.Chunk)*104729 + uint64(round)
		var msgs []string
		var trouble string
		switch prop {
		case "C01", "C02", "C03", "C04", "C14":
			msgs, trouble = rapidRound(seed, perRound, w.SimProperty(prop, DrawSimCase))
		default:
			if f, ok := extraProps[prop]; ok {
				msgs, trouble = f(w, seed, perRound)
			} else {
				t.Fatalf("unknown property %s", prop)
			}
		}
		if trouble != "" {
			o.Trouble = append(o.Trouble, trouble)
		}
		w.finishRound(seed, msgs)
		o.Rounds++
	}
}

// extraProps lets other files register engines for further properties.
var extraProps = map[string]func(w *Worker, seed uint64, checks int) ([]string, string){}

// replay re-executes a replay file in this (fresh) process.
func (w *Worker) replay(path string) {
	b, err := os.ReadFile(path)
	if err != nil {
		w.Out.Trouble = append(w.Out.Trouble, "replay: "+err.Error())
		return
	}
	var rf replayFile
	if err := json.Unmarshal(b, &rf); err != nil {
		w.Out.Trouble = append(w.Out.Trouble, "replay: "+err.Error())
		return
	}
	if f, ok := extraReplays[rf.Engine]; ok {
		f(w, &rf, path)
		return
	}
	if rf.Engine != "sim" {
		w.Out.Trouble = append(w.Out.Trouble, "replay: unknown engine "+rf.Engine)
		return
	}
	os.Setenv("VERIF_TIER", rf.Tier)
	for pass := 0; pass < 2; pass++ {
		var c *SimCase
		if rf.Case != "" {
			c = decodeCase(rf.Case)
		}
		if c == nil {
			rc := &replayChooser{Draws: rf.Draws}
			draw := DrawSimCase
			if d, ok := simDrawers[rf.Property]; ok {
				draw = d
			}
			c = draw(rc, rf.Property)
		}
		if rf.Program != "" && c.Src != rf.Program {
			w.Out.Trouble = append(w.Out.Trouble, "replay diverged: the draw list no longer produces the recorded program (generator changed?)")
			return
		}
		if pass == 0 {
			// follow the recorded schedule literally
			for i := range c.Runs {
				if i < len(rf.Runs) {
					c.Runs[i].Replay = rf.Runs[i].Schedule
					if c.Runs[i].Replay == nil {
						c.Runs[i].Replay = []string{}
					}
				}
			}
		}
		if os.Getenv("VERIF_DEBUG") != "" {
			for i := range c.Runs {
				c.Runs[i].KeepLog = true
			}
		}
		vs, st, trouble := ExecSimCase(w.T, c)
		if os.Getenv("VERIF_DEBUG") != "" {
			fmt.Println(c.Src)
			for i, r := range st.Runs {
				fmt.Printf("--- run %d cfg %+v\n%s\nprints=%v quiescent=%v errors=%v obs=%v model=%v\n", i, c.Runs[i], strings.Join(r.Log, "\n"), r.Prints, r.Quiescent, r.Errors, r.ProtocolObs, r.ModelErrors)
			}
			fmt.Println("violations:", vs, "trouble:", trouble)
		}
		if len(trouble) > 0 {
			if pass == 0 {
				w.Out.Extra["replay_literal_schedule_diverged"]++
				continue // the interpreter changed: fall back to resolving the schedule vector again
			}
			w.Out.Trouble = append(w.Out.Trouble, trouble...)
			return
		}
		for _, v := range vs {
			if v.Prop == rf.Property && v.Class == rf.Violation.Class {
				if id := matchKnown(w.Known, &v, v.Facts); id != "" {
					w.Out.Known[id]++
					return
				}
				w.Out.Violations = append(w.Out.Violations, ViolationRec{Violation: v, Replay: path})
				return
			}
		}
		return
	}
}

var extraReplays = map[string]func(w *Worker, rf *replayFile, path string){}
var simDrawers = map[string]func(Chooser, string) *SimCase{}
