package engine

import "testing"

// TestWorker is the entry point the driver (bin/check) launches in worker
// processes; it does nothing unless VERIF_PROP is set.
func TestWorker(t *testing.T) { RunWorker(t) }
