// Package gen synthesises Grits programs: GEN (type-directed, closed,
// terminating, well typed by construction as far as the harness understands the
// adjoint SAX rules - the real typechecker is the gate), plus mutants, renamings
// and junk in the other files of this package.
package gen

import (
	"fmt"

	. "verifharness/lang"
)

type vr struct {
	n string
	t *Ty
}

// G is the state of one program synthesis. Every decision is a call to intn.
type G struct {
	intn    func(int) int
	base    string // mode of ordinary processes and types ("" = unannotated, i.e. replicable)
	hi      string // "" or a mode strictly above base: closed "value" types live there and meet base through shifts
	scopes  []int
	n       int
	prog    *Program
	mk      map[string]string
	labels  []string
	sigs    []*Def
	collide bool
	distinct bool
	named   map[string]*Ty // shared KNamed nodes by name
	inprog  map[string]bool
}

// Options steer the generator profile.
type Options struct {
	// Collide: binder names restart in every definition (y1, y2, ...), so a
	// caller's variable can be spelled like a callee's binder.
	Collide bool
	// MainStructured: the unconsumed root `main` gets a structured positive
	// type instead of 1 (more parked senders at synchronous quiescence).
	MainStructured bool
	// NegativeRoots: unconsumed roots may contain negative components (servers
	// nobody calls); C02 then compares with the reference semantics' live set.
	NegativeRoots bool
	// Scale: 0 = the usual sizes, 1 = larger programs (more definitions, deeper types, longer
	// main bodies) for the thorough tier.
	Scale int
	// DistinctLabels: structurally different choice types use different label spellings (a17/b17
	// here, a52/b52 there) instead of a/b/c everywhere; a renaming may then collapse them again.
	DistinctLabels bool
	// Untypeable: a purely linear program (no drop, split or multi-name provider) whose forwards
	// carry explicit polarity annotations, so that it also runs with typechecking disabled.
	Untypeable bool
}

func canDrop(m string) bool  { return m == "" || m == "rep" || m == "aff" }
func canSplit(m string) bool { return m == "" || m == "rep" || m == "mul" }

// tooBig is thrown when a synthesis grows out of hand: a continuation is generated once per branch of
// every choice that is consumed in front of it, so a few nested choices in one context multiply
// (rare, but one such draw costs minutes in a -race build). Generate turns it into a trivial program.
type tooBig struct{}

const maxFresh = 2500

func (g *G) fresh(p string) string {
	g.n++
	if g.n > maxFresh {
		panic(tooBig{})
	}
	if g.collide && len(p) == 1 {
		// binder names are only unique within one definition: y1, y2, ... restart in every definition
		g.scopes[len(g.scopes)-1]++
		return fmt.Sprintf("y%d", g.scopes[len(g.scopes)-1])
	}
	return fmt.Sprintf("%s%d", p, g.n)
}

func (g *G) push() { g.scopes = append(g.scopes, 0) }
func (g *G) pop()  { g.scopes = g.scopes[:len(g.scopes)-1] }

func (g *G) unit(m string) *Ty { return &Ty{K: KUnit, M: m} }

func (g *G) name(n string) *Ty { return g.named[n] }

func (g *G) nat(m string) *Ty {
	if m == g.hi && g.hi != "" {
		return g.name("natH")
	}
	return g.name("nat")
}

var brLabels = []string{"a", "b", "c"}

func (g *G) branches(d int, m string) []Br {
	n := 2
	if g.intn(4) == 1 {
		n = 3
	}
	var bs []Br
	for i := 0; i < n; i++ {
		bs = append(bs, Br{brLabels[i], g.randTy(d, m)})
	}
	if g.distinct {
		// labels belong to their choice: every structurally different choice gets spellings of its
		// own (a17, b17, ...; equal choices get equal spellings, as type equality demands)
		h := uint32(2166136261)
		for _, b := range bs {
			for _, ch := range []byte(key(b.T) + "|") {
				h = (h ^ uint32(ch)) * 16777619
			}
		}
		for i := range bs {
			bs[i].L = fmt.Sprintf("%s%d", bs[i].L, h%89)
		}
	}
	return bs
}

// randTy draws a type living at mode m.
func (g *G) randTy(d int, m string) *Ty {
	if m == g.hi && g.hi != "" {
		// value types of the upper mode: positive data, external choices over such data, and
		// up-shifts from the base mode (only closed makers provide them)
		c := g.intn(7)
		if d <= 0 {
			c = g.intn(2)
		}
		switch c {
		case 0:
			return g.unit(m)
		case 1:
			return g.nat(m)
		case 2:
			return &Ty{K: KTimes, M: m, L: g.randTy(d-1, m), R: g.randTy(d-1, m)}
		case 3:
			return &Ty{K: KPlus, M: m, Brs: g.branches(d-1, m)}
		case 4:
			return &Ty{K: KWith, M: m, Brs: g.branches(d-1, m)}
		default:
			return &Ty{K: KUp, M: m, From: g.base, L: g.randTy(d-1, g.base)}
		}
	}
	c := g.intn(9)
	if d <= 0 {
		c = g.intn(3)
	}
	switch c {
	case 0:
		return g.unit(m)
	case 1:
		return g.nat(m)
	case 2:
		if g.intn(2) == 0 {
			return g.name("srv")
		}
		return g.unit(m)
	case 3:
		return &Ty{K: KTimes, M: m, L: g.randTy(d-1, m), R: g.randTy(d-1, m)}
	case 4:
		return &Ty{K: KLolli, M: m, L: g.randTy(d-1, m), R: g.randTy(d-1, m)}
	case 5:
		return &Ty{K: KPlus, M: m, Brs: g.branches(d-1, m)}
	case 6:
		return &Ty{K: KWith, M: m, Brs: g.branches(d-1, m)}
	case 7:
		if g.hi != "" {
			// down-shift: a value of the upper mode offered at the base mode
			return &Ty{K: KDown, M: m, From: g.hi, L: g.randTy(d-1, g.hi)}
		}
		return g.unit(m)
	default:
		return g.unit(m)
	}
}

// alias: after `<y, z> <- recv self`, `case self (l<z> => ...)` or `z <- shift self` both `z`
// and `self` denote the provider; now and then the continuation spells it `z`.
func (g *G) alias(k Term, z string) Term {
	if g.intn(3) == 1 {
		return substSelf(k, z)
	}
	return k
}

func (g *G) label() string { return g.labels[g.intn(len(g.labels))] }

func (g *G) pr(k Term) Term {
	if g.intn(3) == 1 {
		return &Print{L: g.label(), K: k}
	}
	return k
}

func (g *G) unf(t *Ty) *Ty { return g.prog.TEnv.Unf(t) }

func key(t *Ty) string { return t.Text() }

func (g *G) maker(t *Ty) string {
	k := key(t)
	if f, ok := g.mk[k]; ok {
		return f
	}
	f := g.fresh("mk")
	// the maker is registered only after its body exists: a body that asked for "the maker
	// of its own type" would otherwise be a recursive, possibly non-terminating definition
	g.inprog[k] = true
	g.push()
	body := g.canon(t)
	g.pop()
	delete(g.inprog, k)
	g.mk[k] = f
	g.prog.Defs = append(g.prog.Defs, &Def{Name: f, Res: t, Body: body})
	return f
}

// valueTy draws a type for a freshly made value; types whose maker is being generated right
// now are avoided (that would recurse in the generator).
func (g *G) valueTy(m string) *Ty {
	for i := 0; i < 6; i++ {
		t := g.randTy(2, m)
		if !g.inprog[key(t)] {
			return t
		}
	}
	return g.unit(m)
}

func (g *G) newCall(x string, t *Ty, f string, args []string, k Term) Term {
	return &New{X: x, XT: t, Body: &Call{F: f, Args: args}, K: k}
}

func isNat(t *Ty) bool { return t.K == KNamed && (t.Name == "nat" || t.Name == "natH") }

// canon builds a closed canonical provider of t (no context).
func (g *G) canon(t *Ty) Term {
	u := g.unf(t)
	m := u.M
	switch u.K {
	case KUnit:
		return g.pr(&Close{})
	case KTimes:
		y, z := g.fresh("y"), g.fresh("z")
		return g.pr(g.newCall(y, u.L, g.maker(u.L), nil, g.newCall(z, u.R, g.maker(u.R), nil, &Send{"self", y, z})))
	case KPlus:
		if isNat(t) {
			n := g.intn(4)
			un := g.unit(m)
			if n == 0 {
				y := g.fresh("y")
				return g.pr(g.newCall(y, un, g.maker(un), nil, &Sel{"self", "z", y}))
			}
			// numeral n: zero, then n-1 successor cuts, then the final successor
			cur := g.fresh("t")
			zc := g.fresh("n")
			var build func(i int, prev string) Term
			build = func(i int, prev string) Term {
				if i == n-1 {
					return &Sel{"self", "s", prev}
				}
				nc := g.fresh("n")
				return &New{X: nc, XT: t, Ann: true, Body: &Sel{"self", "s", prev}, K: build(i+1, nc)}
			}
			return g.pr(g.newCall(cur, un, g.maker(un), nil, &New{X: zc, XT: t, Ann: true, Body: &Sel{"self", "z", cur}, K: build(0, zc)}))
		}
		b := u.Brs[g.intn(len(u.Brs))]
		y := g.fresh("y")
		return g.pr(g.newCall(y, b.T, g.maker(b.T), nil, &Sel{"self", b.L, y}))
	case KLolli:
		y, z := g.fresh("y"), g.fresh("z")
		return g.pr(&Recv{X: y, Y: z, From: "self", XT: u.L, YT: u.R, K: g.alias(g.gen([]vr{{y, u.L}}, u.R, 1), z)})
	case KWith:
		if t.K == KNamed && t.Name == "srv" {
			return g.pr(&Call{F: g.srvFunc()})
		}
		var bs []Branch
		for _, b := range u.Brs {
			z := g.fresh("z")
			var k Term
			if m == g.hi && g.hi != "" {
				k = g.canon(b.T)
			} else {
				k = g.gen(nil, b.T, 1)
			}
			bs = append(bs, Branch{b.L, z, b.T, g.alias(k, z)})
		}
		return g.pr(&Case{From: "self", Brs: bs})
	case KDown:
		// positive: cast self<v> with v a value of the upper mode
		v := g.fresh("v")
		return g.pr(g.newCall(v, u.L, g.maker(u.L), nil, &Cast{To: "self", Cont: v}))
	case KUp:
		// negative: wait for the client to shift down, then provide at the lower mode
		x := g.fresh("z")
		return g.pr(&Shift{X: x, From: "self", XT: u.L, K: g.alias(g.gen(nil, u.L, 1), x)})
	}
	panic("canon")
}

func (g *G) srvFunc() string {
	if f, ok := g.mk["$srv"]; ok {
		return f
	}
	f := g.fresh("server")
	g.mk["$srv"] = f
	srv := g.name("srv")
	body := &Case{From: "self", Brs: []Branch{
		{"next", "z", srv, &Print{g.label(), &Call{F: f, Args: []string{"z"}}}},
		{"stop", "z", g.unit(g.base), &Print{g.label(), &Close{}}},
	}}
	g.prog.Defs = append(g.prog.Defs, &Def{Name: f, Res: srv, Body: body})
	return f
}

func (g *G) eatFunc(nat *Ty) string {
	k := "$eat" + nat.Name
	if f, ok := g.mk[k]; ok {
		return f
	}
	f := g.fresh("eat")
	g.mk[k] = f
	body := &Case{From: "x", Brs: []Branch{
		{"z", "y", g.unit(nat.M), &Print{g.label(), &Wait{"y", &Close{}}}},
		{"s", "y", nat, &Print{g.label(), &Call{F: f, Args: []string{"y"}}}},
	}}
	g.prog.Defs = append(g.prog.Defs, &Def{Name: f, Params: []Param{{"x", nat}}, Res: g.unit(g.base), Body: body})
	return f
}

// consume uses x up completely in a base-mode process, then continues with k().
func (g *G) consume(x vr, k func() Term) Term {
	if canDrop(x.t.M) && g.intn(3) == 1 {
		return g.pr(&Drop{X: x.n, T: x.t, K: k()})
	}
	u := g.unf(x.t)
	switch u.K {
	case KUnit:
		return g.pr(&Wait{x.n, k()})
	case KTimes:
		y, z := g.fresh("y"), g.fresh("z")
		return g.pr(&Recv{X: y, Y: z, From: x.n, XT: u.L, YT: u.R, K: g.consume(vr{y, u.L}, func() Term { return g.consume(vr{z, u.R}, k) })})
	case KPlus:
		if isNat(x.t) {
			e := g.fresh("e")
			return g.pr(g.newCall(e, g.unit(g.base), g.eatFunc(x.t), []string{x.n}, &Wait{e, k()}))
		}
		var bs []Branch
		for _, b := range u.Brs {
			y := g.fresh("y")
			bs = append(bs, Branch{b.L, y, b.T, g.consume(vr{y, b.T}, k)})
		}
		return g.pr(&Case{From: x.n, Brs: bs})
	case KLolli:
		y, kk := g.fresh("y"), g.fresh("k")
		return g.pr(g.newCall(y, u.L, g.maker(u.L), nil, &New{X: kk, XT: u.R, Ann: true, Body: &Send{x.n, y, "self"}, K: g.consume(vr{kk, u.R}, k)}))
	case KWith:
		b := u.Brs[g.intn(len(u.Brs))]
		if x.t.K == KNamed && x.t.Name == "srv" && g.intn(2) == 0 {
			b = u.Brs[1]
		}
		kk := g.fresh("k")
		return g.pr(&New{X: kk, XT: b.T, Ann: true, Body: &Sel{x.n, b.L, "self"}, K: g.consume(vr{kk, b.T}, k)})
	case KDown:
		y := g.fresh("y")
		return g.pr(&Shift{X: y, From: x.n, XT: u.L, K: g.consume(vr{y, u.L}, k)})
	case KUp:
		kk := g.fresh("k")
		return g.pr(&New{X: kk, XT: u.L, Ann: true, Body: &Cast{To: x.n, Cont: "self"}, K: g.consume(vr{kk, u.L}, k)})
	}
	panic("consume")
}

func without(ctx []vr, i int) []vr {
	return append(append([]vr{}, ctx[:i]...), ctx[i+1:]...)
}

func with(ctx []vr, vs ...vr) []vr {
	return append(append([]vr{}, ctx...), vs...)
}

// gen synthesises a base-mode process providing a from the context ctx.
func (g *G) gen(ctx []vr, a *Ty, fuel int) Term {
	if fuel <= 0 || g.intn(6) == 0 {
		return g.pr(g.finish(ctx, a))
	}
	var acts []func() Term
	if len(ctx) > 0 {
		i := g.intn(len(ctx))
		x := ctx[i]
		rest := without(ctx, i)
		u := g.unf(x.t)
		switch u.K {
		case KUnit:
			acts = append(acts, func() Term { return &Wait{x.n, g.gen(rest, a, fuel-1)} })
		case KTimes:
			acts = append(acts, func() Term {
				y, z := g.fresh("y"), g.fresh("z")
				return &Recv{X: y, Y: z, From: x.n, XT: u.L, YT: u.R, K: g.gen(with(rest, vr{y, u.L}, vr{z, u.R}), a, fuel-1)}
			})
		case KPlus:
			acts = append(acts, func() Term {
				var bs []Branch
				for _, b := range u.Brs {
					y := g.fresh("y")
					bs = append(bs, Branch{b.L, y, b.T, g.gen(with(rest, vr{y, b.T}), a, fuel-2)})
				}
				return &Case{From: x.n, Brs: bs}
			})
		case KLolli:
			acts = append(acts, func() Term {
				y, kk := g.fresh("y"), g.fresh("k")
				return g.newCall(y, u.L, g.maker(u.L), nil, &New{X: kk, XT: u.R, Ann: true, Body: &Send{x.n, y, "self"}, K: g.gen(with(rest, vr{kk, u.R}), a, fuel-1)})
			})
		case KWith:
			acts = append(acts, func() Term {
				b := u.Brs[g.intn(len(u.Brs))]
				kk := g.fresh("k")
				return &New{X: kk, XT: b.T, Ann: true, Body: &Sel{x.n, b.L, "self"}, K: g.gen(with(rest, vr{kk, b.T}), a, fuel-1)}
			})
		case KDown:
			acts = append(acts, func() Term {
				y := g.fresh("y")
				return &Shift{X: y, From: x.n, XT: u.L, K: g.gen(with(rest, vr{y, u.L}), a, fuel-1)}
			})
		case KUp:
			acts = append(acts, func() Term {
				kk := g.fresh("k")
				return &New{X: kk, XT: u.L, Ann: true, Body: &Cast{To: x.n, Cont: "self"}, K: g.gen(with(rest, vr{kk, u.L}), a, fuel-1)}
			})
		}
		if canSplit(x.t.M) {
			acts = append(acts, func() Term {
				x1, x2 := g.fresh("x"), g.fresh("x")
				return &Split{X1: x1, X2: x2, From: x.n, T: x.t, K: g.gen(with(rest, vr{x1, x.t}, vr{x2, x.t}), a, fuel-1)}
			})
		}
		if canDrop(x.t.M) {
			acts = append(acts, func() Term { return &Drop{X: x.n, T: x.t, K: g.gen(rest, a, fuel-1)} })
		}
		acts = append(acts, func() Term {
			y := g.fresh("f")
			return &New{X: y, XT: x.t, Ann: true, Body: &Fwd{From: x.n, T: x.t}, K: g.gen(with(rest, vr{y, x.t}), a, fuel-1)}
		})
		if pk := g.parked(x, rest, a, fuel); pk != nil {
			acts = append(acts, pk)
		}
		// calls of earlier definitions whose first parameter has x's type; further parameters are
		// taken from the context when a variable of the right type is there, else freshly made
		for _, s := range g.sigs {
			s := s
			if len(s.Params) >= 1 && key(s.Params[0].T) == key(x.t) {
				acts = append(acts, func() Term {
					cur := rest
					args := []string{x.n}
					var pre []func(Term) Term
					for _, q := range s.Params[1:] {
						found := -1
						for j, v := range cur {
							if key(v.t) == key(q.T) {
								found = j
								break
							}
						}
						if found >= 0 {
							args = append(args, cur[found].n)
							cur = without(cur, found)
						} else {
							v := g.fresh("v")
							qt := q.T
							args = append(args, v)
							pre = append(pre, func(k Term) Term { return g.newCall(v, qt, g.maker(qt), nil, k) })
						}
					}
					if g.intn(3) == 1 {
						// permute the last two arguments' *positions in the context* is not allowed (types
						// decide positions); instead vary which equal-typed variable goes where
						for a1 := 1; a1 < len(args); a1++ {
							for a2 := a1 + 1; a2 < len(args); a2++ {
								if key(s.Params[a1].T) == key(s.Params[a2].T) && g.intn(2) == 1 {
									args[a1], args[a2] = args[a2], args[a1]
								}
							}
						}
					}
					y := g.fresh("c")
					var t Term = g.newCall(y, s.Res, s.Name, args, g.gen(with(cur, vr{y, s.Res}), a, fuel-1))
					for j := len(pre) - 1; j >= 0; j-- {
						t = pre[j](t)
					}
					return t
				})
			}
		}
	}
	acts = append(acts, func() Term {
		m := g.base
		if g.hi != "" && g.intn(3) == 1 {
			m = g.hi
		}
		t := g.valueTy(m)
		y := g.fresh("v")
		return g.newCall(y, t, g.maker(t), nil, g.gen(with(ctx, vr{y, t}), a, fuel-1))
	})
	u := g.unf(a)
	switch u.K {
	case KLolli:
		acts = append(acts, func() Term {
			y, z := g.fresh("y"), g.fresh("z")
			return &Recv{X: y, Y: z, From: "self", XT: u.L, YT: u.R, K: g.alias(g.gen(with(ctx, vr{y, u.L}), u.R, fuel-1), z)}
		})
	case KWith:
		if !(a.K == KNamed && a.Name == "srv") {
			acts = append(acts, func() Term {
				var bs []Branch
				for _, b := range u.Brs {
					z := g.fresh("z")
					bs = append(bs, Branch{b.L, z, b.T, g.alias(g.gen(with(ctx), b.T, fuel-2), z)})
				}
				return &Case{From: "self", Brs: bs}
			})
		}
	}
	return g.pr(acts[g.intn(len(acts))]())
}

// parked builds `c <- new pk(x); K` where the fresh definition pk first receives on its own
// channel (its type N is negative) and then ends in a tail axiom of a negative left rule on x
// (x.l<self>, send x<w, self>, cast x<self>): while pk is parked it holds x with an action still
// pending. K now and then drops c straight away - "dropping a channel reclaims its provider and
// everything only it depended on". (The real checker accepts only axioms and calls as cut bodies,
// hence the definition.)
func (g *G) parked(x vr, rest []vr, a *Ty, fuel int) func() Term {
	u := g.unf(x.t)
	var A *Ty
	var ax func() Term
	type opt struct {
		a  *Ty
		ax func() Term
	}
	var opts []opt
	switch u.K {
	case KWith:
		if x.t.M == g.base {
			b := u.Brs[g.intn(len(u.Brs))]
			opts = append(opts, opt{b.T, func() Term { return &Sel{To: "x", Label: b.L, Cont: "self"} }})
		}
	case KLolli:
		if x.t.M == g.base {
			opts = append(opts, opt{u.R, func() Term {
				w := g.fresh("y")
				return g.newCall(w, u.L, g.maker(u.L), nil, &Send{To: "x", Payload: w, Cont: "self"})
			}})
		}
	case KUp:
		if u.From == g.base {
			opts = append(opts, opt{u.L, func() Term { return &Cast{To: "x", Cont: "self"} }})
		}
	}
	// a pending tail call f(x) / f(self, x) of an earlier one-parameter definition
	for _, sg := range g.sigs {
		sg := sg
		if len(sg.Params) == 1 && key(sg.Params[0].T) == key(x.t) {
			opts = append(opts, opt{sg.Res, func() Term {
				if g.intn(2) == 1 {
					return &Call{F: sg.Name, Args: []string{"self", "x"}}
				}
				return &Call{F: sg.Name, Args: []string{"x"}}
			}})
		}
	}
	if len(opts) == 0 {
		return nil
	}
	o := opts[g.intn(len(opts))]
	A, ax = o.a, o.ax
	return func() Term {
		var n *Ty
		var body Term
		g.push()
		if g.intn(2) == 0 {
			b := g.unit(g.base)
			if g.intn(2) == 1 {
				b = g.nat(g.base)
			}
			y, z := g.fresh("y"), g.fresh("z")
			n = &Ty{K: KLolli, M: g.base, L: b, R: A}
			body = &Recv{X: y, Y: z, From: "self", XT: b, YT: A, K: g.alias(g.consume(vr{y, b}, ax), z)}
		} else {
			n = &Ty{K: KWith, M: g.base, Brs: []Br{{"a", A}, {"b", A}}}
			z1, z2 := g.fresh("z"), g.fresh("z")
			body = &Case{From: "self", Brs: []Branch{{"a", z1, A, g.alias(g.pr(ax()), z1)}, {"b", z2, A, g.alias(g.pr(ax()), z2)}}}
		}
		g.pop()
		f := g.fresh("pk")
		g.prog.Defs = append(g.prog.Defs, &Def{Name: f, Params: []Param{{"x", x.t}}, Res: n, Body: g.pr(body)})
		c := g.fresh("c")
		var k Term
		if canDrop(g.base) && g.intn(3) == 0 {
			k = &Drop{X: c, T: n, K: g.gen(rest, a, fuel-1)}
		} else {
			k = g.gen(with(rest, vr{c, n}), a, fuel-1)
		}
		return g.newCall(c, n, f, []string{x.n}, k)
	}
}

func (g *G) finish(ctx []vr, a *Ty) Term {
	if len(ctx) == 1 && key(ctx[0].t) == key(a) && g.intn(2) == 0 {
		return &Fwd{From: ctx[0].n, T: a}
	}
	// a down-shift can be provided directly from a context that is exactly its content
	if u := g.unf(a); u.K == KDown && len(ctx) == 1 && key(ctx[0].t) == key(u.L) {
		return &Cast{To: "self", Cont: ctx[0].n}
	}
	// tail axioms of the negative left rules: x.l<self>, send x<y, self>, cast x<self>
	if g.intn(2) == 1 {
		if len(ctx) == 1 {
			u := g.unf(ctx[0].t)
			if u.K == KWith && !(ctx[0].t.K == KNamed && ctx[0].t.Name == "srv") {
				for _, b := range u.Brs {
					if key(b.T) == key(a) {
						return &Sel{To: ctx[0].n, Label: b.L, Cont: "self"}
					}
				}
			}
			if u.K == KUp && key(u.L) == key(a) {
				return &Cast{To: ctx[0].n, Cont: "self"}
			}
		}
		if len(ctx) == 2 {
			for i := 0; i < 2; i++ {
				u := g.unf(ctx[i].t)
				if u.K == KLolli && key(u.L) == key(ctx[1-i].t) && key(u.R) == key(a) {
					return &Send{To: ctx[i].n, Payload: ctx[1-i].n, Cont: "self"}
				}
			}
		}
	}
	// tail call of a definition whose parameters are exactly the context and whose result is a
	if len(ctx) >= 1 && g.intn(3) != 0 {
		for _, s := range g.sigs {
			if key(s.Res) != key(a) || len(s.Params) != len(ctx) {
				continue
			}
			used := make([]bool, len(ctx))
			var args []string
			ok := true
			for _, q := range s.Params {
				f := -1
				for j, v := range ctx {
					if !used[j] && key(v.t) == key(q.T) {
						f = j
						break
					}
				}
				if f < 0 {
					ok = false
					break
				}
				used[f] = true
				args = append(args, ctx[f].n)
			}
			if ok {
				if g.intn(2) == 1 {
					args = append([]string{"self"}, args...) // explicit provider argument
				}
				return &Call{F: s.Name, Args: args}
			}
		}
	}
	var k func(i int) Term
	k = func(i int) Term {
		if i == len(ctx) {
			return g.canon(a)
		}
		return g.consume(ctx[i], func() Term { return k(i + 1) })
	}
	return k(0)
}

// hereditarilyPositive: 1, *, +, down-shifts over such types, and nat (C02's
// domain for unconsumed roots: nothing inside an unconsumed value waits to receive).
func (g *G) hereditarilyPositive(t *Ty, d int) bool {
	if d > 8 {
		return true
	}
	if t.K == KNamed {
		return isNat(t)
	}
	switch t.K {
	case KUnit:
		return true
	case KTimes:
		return g.hereditarilyPositive(t.L, d+1) && g.hereditarilyPositive(t.R, d+1)
	case KPlus:
		for _, b := range t.Brs {
			if !g.hereditarilyPositive(b.T, d+1) {
				return false
			}
		}
		return true
	case KDown:
		return g.hereditarilyPositive(t.L, d+1)
	}
	return false
}

var modePairs = [][2]string{{"lin", "rep"}, {"lin", "aff"}, {"lin", "mul"}, {"aff", "rep"}, {"mul", "rep"}}

// Generate builds a closed program from the choice function intn(n) in [0,n).
func Generate(intn func(int) int, opt Options) (prog *Program) {
	defer func() {
		if r := recover(); r != nil {
			if _, ok := r.(tooBig); !ok {
				panic(r)
			}
			// a trivial, well-typed stand-in (counted by nobody: it is just a small case)
			u := &Ty{K: KUnit}
			prog = &Program{TEnv: TyEnv{}, Procs: []*Proc{{Names: []string{"main"}, T: u, Body: &Print{L: "p", K: &Close{}}}}}
		}
	}()
	g := &G{intn: intn, collide: opt.Collide, distinct: opt.DistinctLabels, mk: map[string]string{}, labels: []string{"p", "q", "u", "v", "w"}, named: map[string]*Ty{}, inprog: map[string]bool{}}
	g.push()
	p := &Program{TEnv: TyEnv{}}
	g.prog = p
	mode := g.intn(8)
	if opt.Untypeable {
		mode = 0
	}
	switch mode {
	case 0:
		g.base = "lin"
	case 1, 2, 3:
		g.base = ""
	case 4:
		g.base = "rep"
	case 5:
		g.base = []string{"aff", "mul"}[g.intn(2)]
	default:
		mp := modePairs[g.intn(len(modePairs))]
		g.base, g.hi = mp[0], mp[1]
	}
	def := func(name string, body *Ty) {
		g.named[name] = &Ty{K: KNamed, Name: name, M: body.M}
		p.TEnv[name] = body
		p.Types = append(p.Types, TypeDef{name, body})
	}
	g.named["nat"] = &Ty{K: KNamed, Name: "nat", M: g.base}
	g.named["srv"] = &Ty{K: KNamed, Name: "srv", M: g.base}
	def("nat", &Ty{K: KPlus, M: g.base, Brs: []Br{{"z", g.unit(g.base)}, {"s", g.named["nat"]}}})
	def("srv", &Ty{K: KWith, M: g.base, Brs: []Br{{"next", g.named["srv"]}, {"stop", g.unit(g.base)}}})
	if g.hi != "" {
		g.named["natH"] = &Ty{K: KNamed, Name: "natH", M: g.hi}
		def("natH", &Ty{K: KPlus, M: g.hi, Brs: []Br{{"z", g.unit(g.hi)}, {"s", g.named["natH"]}}})
	}
	nf := g.intn(3 + 2*opt.Scale)
	for i := 0; i < nf; i++ {
		np := 1
		if g.intn(2) == 1 {
			np = 2 + g.intn(2)
		}
		var params []Param
		var ctx []vr
		names := []string{"x", "w", "r"}
		for j := 0; j < np; j++ {
			m := g.base
			if g.hi != "" && g.intn(4) == 1 {
				m = g.hi
			}
			var t *Ty
			if j > 0 && g.intn(3) != 0 {
				t = params[g.intn(j)].T // equal types make argument order observable only through behaviour
			} else {
				t = g.randTy(1, m)
			}
			params = append(params, Param{names[j], t})
			ctx = append(ctx, vr{names[j], t})
		}
		rt := g.randTy(1+opt.Scale, g.base)
		name := g.fresh("fn")
		g.push()
		body := g.gen(ctx, rt, 2+g.intn(3)+2*opt.Scale)
		g.pop()
		d := &Def{Name: name, Params: params, Res: rt, Body: body}
		if g.intn(3) == 1 {
			d.Prov = "me" // explicit provider name instead of self
			d.Body = substSelf(d.Body, "me")
		}
		p.Defs = append(p.Defs, d)
		g.sigs = append(g.sigs, d)
	}
	var tops []vr
	nt := g.intn(3 + opt.Scale)
	for i := 0; i < nt; i++ {
		t := g.randTy(2+opt.Scale, g.base)
		// a top-level process may itself be the client of an earlier one
		var ctx []vr
		if len(tops) > 0 && g.intn(3) == 1 {
			j := g.intn(len(tops))
			ctx = []vr{tops[j]}
			tops = without(tops, j)
		}
		if g.intn(5) == 0 && canSplit(g.base) {
			a, b := g.fresh("top"), g.fresh("top")
			g.push()
			p.Procs = append(p.Procs, &Proc{Names: []string{a, b}, T: t, Body: g.gen(ctx, t, 2)})
			g.pop()
			tops = append(tops, vr{a, t}, vr{b, t})
		} else {
			a := g.fresh("top")
			g.push()
			p.Procs = append(p.Procs, &Proc{Names: []string{a}, T: t, Body: g.gen(ctx, t, 2)})
			g.pop()
			tops = append(tops, vr{a, t})
		}
	}
	mainT := g.unit(g.base)
	if opt.MainStructured {
		for {
			mainT = g.randTy(2, g.base)
			if g.hereditarilyPositive(mainT, 0) || (opt.NegativeRoots && g.prog.TEnv.Positive(mainT)) {
				break
			}
		}
	}
	p.Procs = append(p.Procs, &Proc{Names: []string{"main"}, T: mainT, Body: g.gen(tops, mainT, 4+g.intn(5)+4*opt.Scale)})
	if opt.Untypeable {
		for _, t := range allTerms(p) {
			if f, ok := t.(*Fwd); ok {
				if p.TEnv.Positive(f.T) {
					f.Pol = "+"
				} else {
					f.Pol = "-"
				}
			}
		}
	}
	// now and then an extra unconsumed root started with `exec f()`
	if g.intn(6) == 1 {
		t := g.unit(g.base)
		if opt.MainStructured {
			t = g.nat(g.base)
		}
		f := g.maker(t)
		p.Procs = append(p.Procs, &Proc{Names: []string{"exec1"}, T: t, Exec: f, Body: &Call{F: f}})
	}
	return p
}

// substSelf spells the provider with an explicit name (function definitions of
// the form `let f[me : T, ...] = body`).
func substSelf(t Term, w string) Term {
	s := func(n string) string {
		if n == "self" {
			return w
		}
		return n
	}
	switch x := t.(type) {
	case *Send:
		return &Send{s(x.To), s(x.Payload), s(x.Cont)}
	case *Recv:
		return &Recv{x.X, x.Y, s(x.From), x.XT, x.YT, substSelf(x.K, w)}
	case *Sel:
		return &Sel{s(x.To), x.Label, s(x.Cont)}
	case *Case:
		n := &Case{From: s(x.From)}
		for _, b := range x.Brs {
			n.Brs = append(n.Brs, Branch{b.Label, b.Payload, b.PT, substSelf(b.K, w)})
		}
		return n
	case *New:
		// inside the body of a cut `self` is the new process: leave it alone
		return &New{x.X, x.XT, x.Ann, x.Body, substSelf(x.K, w)}
	case *Call:
		n := &Call{F: x.F}
		for _, a := range x.Args {
			n.Args = append(n.Args, s(a))
		}
		return n
	case *Close:
		return &Close{X: w}
	case *Wait:
		return &Wait{x.X, substSelf(x.K, w)}
	case *Fwd:
		return &Fwd{To: w, From: x.From, T: x.T, Pol: x.Pol}
	case *Split:
		return &Split{x.X1, x.X2, x.From, x.T, substSelf(x.K, w)}
	case *Drop:
		return &Drop{x.X, x.T, substSelf(x.K, w)}
	case *Print:
		return &Print{x.L, substSelf(x.K, w)}
	case *Cast:
		return &Cast{s(x.To), s(x.Cont)}
	case *Shift:
		return &Shift{x.X, s(x.From), x.XT, substSelf(x.K, w)}
	}
	return t
}
