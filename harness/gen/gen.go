package gen

import (
	"fmt"

	. "verifharness/lang"
)

type vr struct {
	n string
	t *Ty
}

type G struct {
	tUnit, tNat, tSrv *Ty
	intn              func(int) int
	scopes            []int
	lin               bool
	n                 int
	prog              *Program
	mk                map[string]string
	labels            []string
	sigs              []*Def
	// collide: reuse binder names aggressively (exercise name coincidences)
	collide bool
}

func (g *G) fresh(p string) string {
	g.n++
	if g.collide && (p == "y" || p == "z" || p == "k" || p == "x" || p == "v" || p == "f" || p == "c" || p == "e" || p == "t" || p == "n") {
		// binder names are only unique within one definition: y1, y2, ... restart in every definition
		g.scopes[len(g.scopes)-1]++
		return fmt.Sprintf("y%d", g.scopes[len(g.scopes)-1])
	}
	return fmt.Sprintf("%s%d", p, g.n)
}

func (g *G) push() { g.scopes = append(g.scopes, 0) }
func (g *G) pop()  { g.scopes = g.scopes[:len(g.scopes)-1] }

func (g *G) randTy(d int) *Ty {
	c := g.intn(8)
	if d <= 0 {
		c = g.intn(3)
	}
	switch c {
	case 0:
		return g.tUnit
	case 1:
		return g.tNat
	case 2:
		if g.intn(2) == 0 {
			return g.tSrv
		}
		return g.tUnit
	case 3:
		return &Ty{K: KTimes, L: g.randTy(d - 1), R: g.randTy(d - 1)}
	case 4:
		return &Ty{K: KLolli, L: g.randTy(d - 1), R: g.randTy(d - 1)}
	case 5:
		return &Ty{K: KPlus, Brs: []Br{{"a", g.randTy(d - 1)}, {"b", g.randTy(d - 1)}}}
	case 6:
		return &Ty{K: KWith, Brs: []Br{{"a", g.randTy(d - 1)}, {"b", g.randTy(d - 1)}}}
	default:
		return g.tUnit
	}
}

func (g *G) label() string { return g.labels[g.intn(len(g.labels))] }

func (g *G) pr(k Term) Term {
	if g.intn(3) == 1 {
		return &Print{L: g.label(), K: k}
	}
	return k
}

func (g *G) unf(t *Ty) *Ty { return g.prog.TEnv.Unf(t) }

func (g *G) maker(t *Ty) string {
	key := t.String()
	if f, ok := g.mk[key]; ok {
		return f
	}
	f := g.fresh("mk")
	g.push()
	body := g.canon(t)
	g.pop()
	g.mk[key] = f
	g.prog.Defs = append(g.prog.Defs, &Def{Name: f, Res: t, Body: body})
	return f
}

func (g *G) newCall(x string, t *Ty, f string, args []string, k Term) Term {
	return &New{X: x, XT: t, Body: &Call{F: f, Args: args}, K: k}
}

func (g *G) canon(t *Ty) Term {
	u := g.unf(t)
	switch u.K {
	case KUnit:
		return g.pr(&Close{})
	case KTimes:
		y, z := g.fresh("y"), g.fresh("z")
		return g.pr(g.newCall(y, u.L, g.maker(u.L), nil, g.newCall(z, u.R, g.maker(u.R), nil, &Send{"self", y, z})))
	case KPlus:
		if t.K == KNamed && t.Name == "nat" {
			n := g.intn(4)
			if n == 0 {
				y := g.fresh("y")
				return g.pr(g.newCall(y, g.tUnit, g.maker(g.tUnit), nil, &Sel{"self", "z", y}))
			}
			// build numeral n: zero then n-1 succ cuts then final succ
			cur := g.fresh("t")
			zc := g.fresh("n")
			var build func(i int, prev string) Term
			build = func(i int, prev string) Term {
				if i == n-1 {
					return &Sel{"self", "s", prev}
				}
				nc := g.fresh("n")
				return &New{X: nc, XT: g.tNat, Ann: true, Body: &Sel{"self", "s", prev}, K: build(i+1, nc)}
			}
			return g.pr(g.newCall(cur, g.tUnit, g.maker(g.tUnit), nil, &New{X: zc, XT: g.tNat, Ann: true, Body: &Sel{"self", "z", cur}, K: build(0, zc)}))
		}
		b := u.Brs[g.intn(len(u.Brs))]
		y := g.fresh("y")
		return g.pr(g.newCall(y, b.T, g.maker(b.T), nil, &Sel{"self", b.L, y}))
	case KLolli:
		y, z := g.fresh("y"), g.fresh("z")
		return g.pr(&Recv{X: y, Y: z, From: "self", XT: u.L, YT: u.R, K: g.gen([]vr{{y, u.L}}, u.R, 1)})
	case KWith:
		if t.K == KNamed && t.Name == "srv" {
			return g.pr(&Call{F: g.srvFunc()})
		}
		var bs []Branch
		for _, b := range u.Brs {
			z := g.fresh("z")
			bs = append(bs, Branch{b.L, z, b.T, g.gen(nil, b.T, 1)})
		}
		return g.pr(&Case{From: "self", Brs: bs})
	}
	panic("canon")
}

func (g *G) srvFunc() string {
	if f, ok := g.mk["$srv"]; ok {
		return f
	}
	f := g.fresh("server")
	g.mk["$srv"] = f
	body := &Case{From: "self", Brs: []Branch{
		{"next", "z", g.tSrv, &Print{g.label(), &Call{F: f, Args: []string{"z"}}}},
		{"stop", "z", g.tUnit, &Print{g.label(), &Close{}}},
	}}
	g.prog.Defs = append(g.prog.Defs, &Def{Name: f, Res: g.tSrv, Body: body})
	return f
}

func (g *G) eatFunc() string {
	if f, ok := g.mk["$eat"]; ok {
		return f
	}
	f := g.fresh("eat")
	g.mk["$eat"] = f
	body := &Case{From: "x", Brs: []Branch{
		{"z", "y", g.tUnit, &Print{g.label(), &Wait{"y", &Close{}}}},
		{"s", "y", g.tNat, &Print{g.label(), &Call{F: f, Args: []string{"y"}}}},
	}}
	g.prog.Defs = append(g.prog.Defs, &Def{Name: f, Params: []Param{{"x", g.tNat}}, Res: g.tUnit, Body: body})
	return f
}

func (g *G) consume(x vr, k func() Term) Term {
	if !g.lin && g.intn(3) == 0 {
		return g.pr(&Drop{X: x.n, T: x.t, K: k()})
	}
	u := g.unf(x.t)
	switch u.K {
	case KUnit:
		return g.pr(&Wait{x.n, k()})
	case KTimes:
		y, z := g.fresh("y"), g.fresh("z")
		return g.pr(&Recv{X: y, Y: z, From: x.n, XT: u.L, YT: u.R, K: g.consume(vr{y, u.L}, func() Term { return g.consume(vr{z, u.R}, k) })})
	case KPlus:
		if x.t.K == KNamed && x.t.Name == "nat" {
			e := g.fresh("e")
			return g.pr(g.newCall(e, g.tUnit, g.eatFunc(), []string{x.n}, &Wait{e, k()}))
		}
		var bs []Branch
		for _, b := range u.Brs {
			y := g.fresh("y")
			bs = append(bs, Branch{b.L, y, b.T, g.consume(vr{y, b.T}, k)})
		}
		return g.pr(&Case{From: x.n, Brs: bs})
	case KLolli:
		y, kk := g.fresh("y"), g.fresh("k")
		return g.pr(g.newCall(y, u.L, g.maker(u.L), nil, &New{X: kk, XT: u.R, Ann: true, Body: &Send{x.n, y, "self"}, K: g.consume(vr{kk, u.R}, k)}))
	case KWith:
		b := u.Brs[g.intn(len(u.Brs))]
		if x.t.K == KNamed && x.t.Name == "srv" && g.intn(2) == 0 {
			b = u.Brs[1]
		}
		kk := g.fresh("k")
		return g.pr(&New{X: kk, XT: b.T, Ann: true, Body: &Sel{x.n, b.L, "self"}, K: g.consume(vr{kk, b.T}, k)})
	}
	panic("consume")
}

func without(ctx []vr, i int) []vr {
	return append(append([]vr{}, ctx[:i]...), ctx[i+1:]...)
}

func with(ctx []vr, vs ...vr) []vr {
	return append(append([]vr{}, ctx...), vs...)
}

func (g *G) gen(ctx []vr, a *Ty, fuel int) Term {
	if fuel <= 0 || g.intn(6) == 0 {
		return g.pr(g.finish(ctx, a))
	}
	var acts []func() Term
	if len(ctx) > 0 {
		i := g.intn(len(ctx))
		x := ctx[i]
		rest := without(ctx, i)
		u := g.unf(x.t)
		switch u.K {
		case KUnit:
			acts = append(acts, func() Term { return &Wait{x.n, g.gen(rest, a, fuel-1)} })
		case KTimes:
			acts = append(acts, func() Term {
				y, z := g.fresh("y"), g.fresh("z")
				return &Recv{X: y, Y: z, From: x.n, XT: u.L, YT: u.R, K: g.gen(with(rest, vr{y, u.L}, vr{z, u.R}), a, fuel-1)}
			})
		case KPlus:
			acts = append(acts, func() Term {
				var bs []Branch
				for _, b := range u.Brs {
					y := g.fresh("y")
					bs = append(bs, Branch{b.L, y, b.T, g.gen(with(rest, vr{y, b.T}), a, fuel-2)})
				}
				return &Case{From: x.n, Brs: bs}
			})
		case KLolli:
			acts = append(acts, func() Term {
				y, kk := g.fresh("y"), g.fresh("k")
				return g.newCall(y, u.L, g.maker(u.L), nil, &New{X: kk, XT: u.R, Ann: true, Body: &Send{x.n, y, "self"}, K: g.gen(with(rest, vr{kk, u.R}), a, fuel-1)})
			})
		case KWith:
			acts = append(acts, func() Term {
				b := u.Brs[g.intn(len(u.Brs))]
				kk := g.fresh("k")
				return &New{X: kk, XT: b.T, Ann: true, Body: &Sel{x.n, b.L, "self"}, K: g.gen(with(rest, vr{kk, b.T}), a, fuel-1)}
			})
		}
		if !g.lin {
			acts = append(acts, func() Term {
				x1, x2 := g.fresh("x"), g.fresh("x")
				return &Split{X1: x1, X2: x2, From: x.n, T: x.t, K: g.gen(with(rest, vr{x1, x.t}, vr{x2, x.t}), a, fuel-1)}
			})
			acts = append(acts, func() Term { return &Drop{X: x.n, T: x.t, K: g.gen(rest, a, fuel-1)} })
		}
		acts = append(acts, func() Term {
			y := g.fresh("f")
			return &New{X: y, XT: x.t, Ann: true, Body: &Fwd{From: x.n, T: x.t}, K: g.gen(with(rest, vr{y, x.t}), a, fuel-1)}
		})
		for _, s := range g.sigs {
			s := s
			if len(s.Params) == 1 && s.Params[0].T.String() == x.t.String() {
				acts = append(acts, func() Term {
					y := g.fresh("c")
					return g.newCall(y, s.Res, s.Name, []string{x.n}, g.gen(with(rest, vr{y, s.Res}), a, fuel-1))
				})
			}
		}
	}
	acts = append(acts, func() Term {
		t := g.randTy(2)
		y := g.fresh("v")
		return g.newCall(y, t, g.maker(t), nil, g.gen(with(ctx, vr{y, t}), a, fuel-1))
	})
	u := g.unf(a)
	switch u.K {
	case KLolli:
		acts = append(acts, func() Term {
			y, z := g.fresh("y"), g.fresh("z")
			return &Recv{X: y, Y: z, From: "self", XT: u.L, YT: u.R, K: g.gen(with(ctx, vr{y, u.L}), u.R, fuel-1)}
		})
	case KWith:
		if !(a.K == KNamed && a.Name == "srv") {
			acts = append(acts, func() Term {
				var bs []Branch
				for _, b := range u.Brs {
					z := g.fresh("z")
					bs = append(bs, Branch{b.L, z, b.T, g.gen(with(ctx), b.T, fuel-2)})
				}
				return &Case{From: "self", Brs: bs}
			})
		}
	}
	return g.pr(acts[g.intn(len(acts))]())
}

func (g *G) finish(ctx []vr, a *Ty) Term {
	if len(ctx) == 1 && ctx[0].t.String() == a.String() && g.intn(2) == 0 {
		return &Fwd{From: ctx[0].n, T: a}
	}
	var k func(i int) Term
	k = func(i int) Term {
		if i == len(ctx) {
			return g.canon(a)
		}
		return g.consume(ctx[i], func() Term { return k(i + 1) })
	}
	return k(0)
}

// Options steer the generator profile.
type Options struct {
	// Collide: binder names restart in every definition (y1, y2, ...), so a
	// caller's variable can be spelled like a callee's binder.
	Collide bool
	// MainStructured: the unconsumed root `main` gets a structured positive
	// type instead of 1 (more parked senders at synchronous quiescence).
	MainStructured bool
}

// Generate builds a closed program from the choice function intn(n) in [0,n).
func Generate(intn func(int) int, opt Options) *Program {
	g := &G{intn: intn, collide: opt.Collide, mk: map[string]string{}, labels: []string{"p", "q", "u", "v", "w"}}
	g.tUnit = &Ty{K: KUnit}
	g.tNat = &Ty{K: KNamed, Name: "nat"}
	g.tSrv = &Ty{K: KNamed, Name: "srv"}
	g.push()
	g.lin = g.intn(4) == 0
	p := &Program{TEnv: TyEnv{}}
	g.prog = p
	mode := ""
	if g.lin {
		mode = "lin"
	} else if g.intn(3) == 0 {
		mode = "rep"
	}
	natT := &Ty{K: KPlus, Brs: []Br{{"z", g.tUnit}, {"s", g.tNat}}}
	srvT := &Ty{K: KWith, Brs: []Br{{"next", g.tSrv}, {"stop", g.tUnit}}}
	p.TEnv["nat"], p.TEnv["srv"] = natT, srvT
	p.Types = append(p.Types, TypeDef{"nat", natT}, TypeDef{"srv", srvT})
	nf := g.intn(3)
	for i := 0; i < nf; i++ {
		pt, rt := g.randTy(1), g.randTy(1)
		name := g.fresh("fn")
		g.push()
		body := g.gen([]vr{{"x", pt}}, rt, 2+g.intn(3))
		g.pop()
		d := &Def{Name: name, Params: []Param{{"x", pt}}, Res: rt, Body: body}
		p.Defs = append(p.Defs, d)
		g.sigs = append(g.sigs, d)
	}
	var tops []vr
	nt := g.intn(3)
	for i := 0; i < nt; i++ {
		t := g.randTy(2)
		if g.intn(5) == 0 && !g.lin {
			a, b := g.fresh("top"), g.fresh("top")
			g.push()
			p.Procs = append(p.Procs, &Proc{Names: []string{a, b}, T: t, Body: g.gen(nil, t, 2)})
			g.pop()
			tops = append(tops, vr{a, t}, vr{b, t})
		} else {
			a := g.fresh("top")
			g.push()
			p.Procs = append(p.Procs, &Proc{Names: []string{a}, T: t, Body: g.gen(nil, t, 2)})
			g.pop()
			tops = append(tops, vr{a, t})
		}
	}
	mainT := g.tUnit
	if opt.MainStructured {
		for {
			mainT = g.randTy(2)
			if g.hereditarilyPositive(mainT, 0) {
				break
			}
		}
	}
	p.Procs = append(p.Procs, &Proc{Names: []string{"main"}, T: mainT, Body: g.gen(tops, mainT, 4+g.intn(5))})
	setModes(p, mode)
	return p
}

// hereditarilyPositive: 1, *, + over such types, and nat (C02's domain for
// unconsumed roots: nothing inside an unconsumed value waits to receive).
func (g *G) hereditarilyPositive(t *Ty, d int) bool {
	if d > 8 {
		return true
	}
	if t.K == KNamed {
		return t.Name == "nat"
	}
	switch t.K {
	case KUnit:
		return true
	case KTimes:
		return g.hereditarilyPositive(t.L, d+1) && g.hereditarilyPositive(t.R, d+1)
	case KPlus:
		for _, b := range t.Brs {
			if !g.hereditarilyPositive(b.T, d+1) {
				return false
			}
		}
		return true
	}
	return false
}

// setModes stamps the program's single mode on every type node.
func setModes(p *Program, mode string) {
	seen := map[*Ty]bool{}
	var walk func(t *Ty)
	walk = func(t *Ty) {
		if t == nil || seen[t] {
			return
		}
		seen[t] = true
		t.M = mode
		walk(t.L)
		walk(t.R)
		for _, b := range t.Brs {
			walk(b.T)
		}
	}
	var term func(t Term)
	term = func(t Term) {
		switch x := t.(type) {
		case *Recv:
			walk(x.XT)
			walk(x.YT)
			term(x.K)
		case *Case:
			for _, b := range x.Brs {
				walk(b.PT)
				term(b.K)
			}
		case *New:
			walk(x.XT)
			term(x.Body)
			term(x.K)
		case *Wait:
			term(x.K)
		case *Fwd:
			walk(x.T)
		case *Split:
			walk(x.T)
			term(x.K)
		case *Drop:
			walk(x.T)
			term(x.K)
		case *Print:
			term(x.K)
		case *Shift:
			walk(x.XT)
			term(x.K)
		}
	}
	for _, t := range p.Types {
		walk(t.T)
	}
	for _, d := range p.Defs {
		for _, q := range d.Params {
			walk(q.T)
		}
		walk(d.Res)
		term(d.Body)
	}
	for _, q := range p.Procs {
		walk(q.T)
		term(q.Body)
	}
}
