package gen

import (
	"fmt"
	"strings"
)

// JUNK: texts that are steered to *parse* without any regard for typing
// (grammar-directed random derivations with ill-kinded pieces), plus token soup
// and byte-level mutations. Used where the property quantifies over every
// parseable program (C09) or every text (C11, C18).

type junk struct {
	intn  func(int) int
	names []string
	tys   []string
	funs  []string
	depth int
}

var junkModes = []string{"", "", "", "lin ", "aff ", "mul ", "rep ", "l ", "a ", "m ", "r ", "linear ", "affine ", "multicast ", "replicable "}
var junkLabels = []string{"a", "b", "l", "z", "s", "next", "stop", "ok"}

func (j *junk) pick(xs []string) string { return xs[j.intn(len(xs))] }

func (j *junk) name() string {
	switch j.intn(8) {
	case 0:
		return "self"
	case 1:
		return "+" + j.pick(j.names)
	case 2:
		return "-" + j.pick(j.names)
	}
	return j.pick(j.names)
}

func (j *junk) tyInner(d int) string {
	c := j.intn(9)
	if d <= 0 {
		c = j.intn(3)
	}
	switch c {
	case 0:
		return "1"
	case 1, 2:
		if len(j.tys) > 0 {
			return j.pick(j.tys)
		}
		return "1"
	case 3:
		return "(" + j.tyInner(d-1) + " * " + j.tyInner(d-1) + ")"
	case 4:
		return "(" + j.tyInner(d-1) + " -* " + j.tyInner(d-1) + ")"
	case 5, 6:
		op := "+{"
		if c == 6 {
			op = "&{"
		}
		n := 1 + j.intn(3)
		var bs []string
		for i := 0; i < n; i++ {
			bs = append(bs, j.pick(junkLabels)+" : "+j.tyInner(d-1))
		}
		return op + strings.Join(bs, ", ") + "}"
	case 7:
		return "(" + strings.TrimSpace(j.pick(junkModes[3:])) + " /\\ " + strings.TrimSpace(j.pick(junkModes[3:])) + " " + j.tyInner(d-1) + ")"
	default:
		return "(" + strings.TrimSpace(j.pick(junkModes[3:])) + " \\/ " + strings.TrimSpace(j.pick(junkModes[3:])) + " " + j.tyInner(d-1) + ")"
	}
}

func (j *junk) ty() string { return j.pick(junkModes) + j.tyInner(2) }

func (j *junk) term(d int) string {
	c := j.intn(15)
	if d <= 0 {
		c = j.intn(6)
	}
	switch c {
	case 0:
		return "close " + j.name()
	case 1:
		return fmt.Sprintf("send %s<%s, %s>", j.name(), j.name(), j.name())
	case 2:
		return fmt.Sprintf("%s.%s<%s>", j.name(), j.pick(junkLabels), j.name())
	case 3:
		return fmt.Sprintf("fwd %s %s", j.name(), j.name())
	case 4:
		return fmt.Sprintf("cast %s<%s>", j.name(), j.name())
	case 5:
		n := j.intn(3)
		var as []string
		for i := 0; i < n; i++ {
			as = append(as, j.name())
		}
		f := "f"
		if len(j.funs) > 0 {
			f = j.pick(j.funs)
		}
		return fmt.Sprintf("%s(%s)", f, strings.Join(as, ", "))
	case 6:
		return fmt.Sprintf("<%s, %s> <- recv %s; %s", j.pick(j.names), j.pick(j.names), j.name(), j.term(d-1))
	case 7:
		n := j.intn(4) // 0: `case x ()`, which the grammar accepts
		var bs []string
		for i := 0; i < n; i++ {
			bs = append(bs, fmt.Sprintf("%s<%s> => %s", j.pick(junkLabels), j.pick(j.names), j.term(d-1)))
		}
		return fmt.Sprintf("case %s (%s)", j.name(), strings.Join(bs, " | "))
	case 8:
		return fmt.Sprintf("%s <- new %s; %s", j.pick(j.names), j.term(0), j.term(d-1))
	case 9:
		return fmt.Sprintf("%s : %s <- new %s; %s", j.pick(j.names), j.ty(), j.term(0), j.term(d-1))
	case 10:
		return fmt.Sprintf("<%s, %s> <- split %s; %s", j.pick(j.names), j.pick(j.names), j.name(), j.term(d-1))
	case 11:
		return fmt.Sprintf("wait %s; %s", j.name(), j.term(d-1))
	case 12:
		return fmt.Sprintf("drop %s; %s", j.name(), j.term(d-1))
	case 13:
		return fmt.Sprintf("%s <- shift %s; %s", j.pick(j.names), j.name(), j.term(d-1))
	default:
		return fmt.Sprintf("print %s; %s", j.pick(junkLabels), j.term(d-1))
	}
}

// JunkProgram returns a text that (almost always) parses and is typed at random.
func JunkProgram(intn func(int) int) string {
	j := &junk{intn: intn, names: []string{"x", "y", "z", "u", "v", "w", "x'", "k"}}
	var sb strings.Builder
	nt := intn(4)
	for i := 0; i < nt; i++ {
		j.tys = append(j.tys, fmt.Sprintf("T%d", i))
	}
	if intn(3) == 1 {
		j.tys = append(j.tys, "U") // sometimes an undefined type name
	}
	for i := 0; i < nt; i++ {
		name := fmt.Sprintf("T%d", i)
		if intn(8) == 1 && i > 0 {
			name = "T0" // duplicate definition
		}
		fmt.Fprintf(&sb, "type %s = %s\n", name, j.ty())
	}
	nf := intn(3)
	for i := 0; i < nf; i++ {
		j.funs = append(j.funs, fmt.Sprintf("f%d", i))
	}
	for i := 0; i < nf; i++ {
		np := intn(5)
		var ps []string
		same := j.pick(j.names)
		for k := 0; k < np; k++ {
			n := j.pick(j.names)
			if np >= 3 && intn(3) == 0 {
				n = same // the same name three or four times in one list
			}
			ps = append(ps, n+" : "+j.ty())
		}
		if intn(5) == 1 {
			fmt.Fprintf(&sb, "let f%d[%s] = %s\n", i, strings.Join(append([]string{"w : " + j.ty()}, ps...), ", "), j.term(3))
		} else {
			fmt.Fprintf(&sb, "let f%d(%s) : %s = %s\n", i, strings.Join(ps, ", "), j.ty(), j.term(3))
		}
	}
	if intn(6) == 1 {
		a := j.pick(j.names)
		fmt.Fprintf(&sb, "assuming %s : %s", a, j.ty())
		if intn(3) == 1 {
			fmt.Fprintf(&sb, ", %s : %s, %s : %s", a, j.ty(), []string{a, j.pick(j.names)}[intn(2)], j.ty())
		}
		sb.WriteString("\n")
	}
	np := 1 + intn(3)
	for i := 0; i < np; i++ {
		if intn(8) == 1 {
			// exec of a defined function (any arity), of a name that is no function at all, of a channel name
			f := "g"
			if len(j.funs) > 0 && intn(3) != 0 {
				f = j.pick(j.funs)
			} else if intn(2) == 1 {
				f = j.pick(j.names)
			}
			fmt.Fprintf(&sb, "exec %s()\n", f)
			continue
		}
		prov := j.pick(j.names)
		if intn(6) == 1 {
			prov += ", " + j.pick(j.names)
			if intn(3) == 1 {
				// three or four providers, some of them the same name
				first := strings.Split(prov, ",")[0]
				prov += ", " + first + ", " + []string{first, j.pick(j.names)}[intn(2)]
			}
		}
		fmt.Fprintf(&sb, "prc[%s] : %s = %s\n", prov, j.ty(), j.term(3))
	}
	return sb.String()
}

var soupTokens = []string{"type", "let", "prc", "exec", "assuming", "send", "recv", "case", "close", "wait", "cast", "shift", "drop", "split", "new", "fwd", "print", "self",
	"<", ">", "(", ")", "[", "]", "{", "}", ",", ";", ":", "=", "=>", "<-", "|", ".", "+", "-", "&", "*", "-*", "/\\", "\\/", "1", "x", "y", "T", "lin", "aff", "rep", "mul",
	"//", "/*", "*/", "\n", " ", "\t", "'", "0", "_", "@", "#", "\x00", "\xff", "\xc3", "é", "/", "\\"}

// TokenSoup is a random sequence of lexemes (not steered to parse).
func TokenSoup(intn func(int) int, maxTokens int) string {
	n := intn(maxTokens + 1)
	var sb strings.Builder
	for i := 0; i < n; i++ {
		sb.WriteString(soupTokens[intn(len(soupTokens))])
		if intn(3) != 0 {
			sb.WriteByte(' ')
		}
	}
	return sb.String()
}

// MutateBytes applies up to k byte-level edits (replace, insert, delete, truncate).
func MutateBytes(intn func(int) int, text string, k int) string {
	b := []byte(text)
	special := []string{"/*", "*/", "//", "\x00", "\xff", "\xc3", "é", "*", "/", "<", "-", "=", "1", "\\", "\n", "'", "(", ")", "{", ";"}
	n := 1 + intn(k)
	for i := 0; i < n; i++ {
		pos := intn(len(b) + 1)
		ins := []byte(special[intn(len(special))])
		switch intn(4) {
		case 0: // insert
			b = append(b[:pos], append(ins, b[pos:]...)...)
		case 1: // replace
			if pos < len(b) {
				b = append(b[:pos], append(ins, b[pos+1:]...)...)
			}
		case 2: // delete a byte
			if pos < len(b) {
				b = append(b[:pos], b[pos+1:]...)
			}
		default: // truncate
			b = b[:pos]
		}
	}
	return string(b)
}
