package gen

import (
	"fmt"

	. "verifharness/lang"
)

// MUT: single-edit mutants of a generated program. Most of them are ill typed
// and the real checker rejects them; whatever it still accepts is, by
// definition, in the domain of "for all accepted closed programs" (C01-C03) and
// is run. The reference semantics is not consulted for mutants.

func allTerms(p *Program) []Term {
	var out []Term
	var walk func(t Term)
	walk = func(t Term) {
		out = append(out, t)
		switch x := t.(type) {
		case *Recv:
			walk(x.K)
		case *Case:
			for _, b := range x.Brs {
				walk(b.K)
			}
		case *New:
			walk(x.Body)
			walk(x.K)
		case *Wait:
			walk(x.K)
		case *Split:
			walk(x.K)
		case *Drop:
			walk(x.K)
		case *Print:
			walk(x.K)
		case *Shift:
			walk(x.K)
		}
	}
	for _, d := range p.Defs {
		walk(d.Body)
	}
	for _, q := range p.Procs {
		if q.Exec == "" {
			walk(q.Body)
		}
	}
	return out
}

// termSlots returns the address of every place a term sits in (so that it can be replaced).
func termSlots(p *Program) []*Term {
	var out []*Term
	var walk func(s *Term)
	walk = func(s *Term) {
		out = append(out, s)
		switch x := (*s).(type) {
		case *Recv:
			walk(&x.K)
		case *Case:
			for i := range x.Brs {
				walk(&x.Brs[i].K)
			}
		case *New:
			walk(&x.Body)
			walk(&x.K)
		case *Wait:
			walk(&x.K)
		case *Split:
			walk(&x.K)
		case *Drop:
			walk(&x.K)
		case *Print:
			walk(&x.K)
		case *Shift:
			walk(&x.K)
		}
	}
	for _, d := range p.Defs {
		walk(&d.Body)
	}
	for _, q := range p.Procs {
		if q.Exec == "" {
			walk(&q.Body)
		}
	}
	return out
}

// mutateStructure: edits against the structural rules rather than the types - a use removed
// (a linear name left over), a use doubled (contraction without split), a branch omitted, a
// drop turned into a wait or the other way round, a mode changed.
func mutateStructure(p *Program, intn func(int) int) string {
	slots := termSlots(p)
	pick := func(ok func(Term) bool) *Term {
		var c []*Term
		for _, s := range slots {
			if ok(*s) {
				c = append(c, s)
			}
		}
		if len(c) == 0 {
			return nil
		}
		return c[intn(len(c))]
	}
	// names of top-level processes: leaving one of those unused is legal (an unconsumed root)
	top := map[string]bool{}
	for _, q := range p.Procs {
		for _, n := range q.Names {
			top[n] = true
		}
	}
	switch intn(8) {
	case 7: // a top-level process that nobody refers to is declared under the name `self` (or with a polarity sign)
		used := map[string]bool{}
		for _, q := range p.Procs {
			fv := map[string]bool{}
			FV(q.Body, map[string]bool{}, fv)
			for n := range fv {
				used[n] = true
			}
		}
		var cands []*Proc
		for _, q := range p.Procs {
			if q.Exec == "" && len(q.Names) == 1 && !used[q.Names[0]] {
				cands = append(cands, q)
			}
		}
		if len(cands) == 0 {
			return ""
		}
		q := cands[intn(len(cands))]
		old := q.Names[0]
		q.Names[0] = []string{"self", "self", "+" + old, "-" + old}[intn(4)]
		return fmt.Sprintf("process %s declared as prc[%s]", old, q.Names[0])
	case 6: // the two binders of one receive or split spelled alike
		s := pick(func(t Term) bool {
			switch t.(type) {
			case *Recv, *Split:
				return true
			}
			return false
		})
		if s == nil {
			return ""
		}
		switch x := (*s).(type) {
		case *Recv:
			// the binder that disappears may have been consumed by a plain wait/drop: that use
			// goes too, so that the rest of the body still makes sense to the checker
			lost, kept := x.X, x.Y
			if intn(4) == 0 {
				lost, kept = x.Y, x.X
			}
			x.X, x.Y = kept, kept
			var sub []*Term
			var walk func(sl *Term)
			walk = func(sl *Term) {
				sub = append(sub, sl)
				switch y := (*sl).(type) {
				case *Recv:
					walk(&y.K)
				case *Case:
					for i := range y.Brs {
						walk(&y.Brs[i].K)
					}
				case *New:
					walk(&y.K)
				case *Wait:
					walk(&y.K)
				case *Split:
					walk(&y.K)
				case *Drop:
					walk(&y.K)
				case *Print:
					walk(&y.K)
				case *Shift:
					walk(&y.K)
				}
			}
			walk(&x.K)
			for _, sl := range sub {
				if y, ok := (*sl).(*Wait); ok && y.X == lost {
					*sl = y.K
					break
				}
				if y, ok := (*sl).(*Drop); ok && y.X == lost {
					*sl = y.K
					break
				}
			}
			return fmt.Sprintf("receive from %s: both binders spelled %s (the use of %s removed)", x.From, kept, lost)
		case *Split:
			x.X2 = x.X1
			return fmt.Sprintf("split of %s: both binders spelled %s", x.From, x.X1)
		}
	case 0: // a consuming use removed: `wait x; K` / `drop x; K` becomes K
		s := pick(func(t Term) bool {
			switch x := t.(type) {
			case *Wait:
				return !top[x.X]
			case *Drop:
				return !top[x.X]
			}
			return false
		})
		if s == nil {
			return ""
		}
		switch x := (*s).(type) {
		case *Wait:
			*s = x.K
			return "wait " + x.X + " removed (name left unused)"
		case *Drop:
			*s = x.K
			return "drop " + x.X + " removed (name left unused)"
		}
	case 1: // a use doubled
		s := pick(func(t Term) bool {
			switch x := t.(type) {
			case *Wait:
				return true
			case *Call:
				return len(x.Args) >= 2
			case *Drop:
				return true
			}
			return false
		})
		if s == nil {
			return ""
		}
		switch x := (*s).(type) {
		case *Wait:
			*s = &Wait{X: x.X, K: &Wait{X: x.X, K: x.K}}
			return "wait " + x.X + " doubled"
		case *Drop:
			*s = &Drop{X: x.X, T: x.T, K: &Drop{X: x.X, T: x.T, K: x.K}}
			return "drop " + x.X + " doubled"
		case *Call:
			i := intn(len(x.Args) - 1)
			old := x.Args[i+1]
			if top[old] {
				return ""
			}
			x.Args[i+1] = x.Args[i]
			return fmt.Sprintf("call %s: argument %s replaced by a second %s", x.F, old, x.Args[i])
		}
	case 2: // a branch omitted
		s := pick(func(t Term) bool { x, ok := t.(*Case); return ok && len(x.Brs) >= 2 })
		if s == nil {
			return ""
		}
		x := (*s).(*Case)
		i := intn(len(x.Brs))
		old := x.Brs[i].Label
		x.Brs = append(append([]Branch{}, x.Brs[:i]...), x.Brs[i+1:]...)
		return fmt.Sprintf("case %s: branch %s omitted", x.From, old)
	case 3: // drop <-> wait
		s := pick(func(t Term) bool {
			switch t.(type) {
			case *Wait, *Drop:
				return true
			}
			return false
		})
		if s == nil {
			return ""
		}
		switch x := (*s).(type) {
		case *Wait:
			*s = &Drop{X: x.X, T: &Ty{K: KUnit}, K: x.K}
			return "wait " + x.X + " turned into drop"
		case *Drop:
			*s = &Wait{X: x.X, K: x.K}
			return "drop " + x.X + " turned into wait"
		}
	case 4: // the mode of one annotation changed
		sites := annotationSites(p)
		if len(sites) == 0 {
			return ""
		}
		st := sites[intn(len(sites))]
		n := *(*st)
		old := n.M
		n.M = []string{"lin", "aff", "mul", "rep"}[intn(4)]
		if n.M == old || n.K == KNamed {
			return ""
		}
		*st = &n
		return fmt.Sprintf("mode of annotation %s changed from %q to %q", (*st).Text(), old, n.M)
	default: // the mode of a type definition changed
		if len(p.Types) == 0 {
			return ""
		}
		i := intn(len(p.Types))
		n := *p.Types[i].T
		old := n.M
		n.M = []string{"lin", "aff", "mul", "rep"}[intn(4)]
		if n.M == old {
			return ""
		}
		p.Types[i].T = &n
		p.TEnv[p.Types[i].Name] = &n
		return fmt.Sprintf("mode of type %s changed from %q to %q", p.Types[i].Name, old, n.M)
	}
	return ""
}

// Mutate applies one mutation in place and describes it ("" if none applied).
func Mutate(p *Program, intn func(int) int) string {
	switch intn(22) {
	case 20, 21: // a second definition under the name of a called one, with a different arity, in front of it
		if p.Order != nil || len(p.Defs) < 2 {
			return ""
		}
		called := map[string]bool{}
		for _, t := range allTerms(p) {
			if x, ok := t.(*Call); ok {
				called[x.F] = true
			}
		}
		var gs []*Def
		for _, d := range p.Defs {
			if called[d.Name] && len(d.Params) >= 1 {
				gs = append(gs, d)
			}
		}
		if len(gs) == 0 {
			return ""
		}
		g := gs[intn(len(gs))]
		// the interpreter resolves f(x1..xn) to the first definition with n or n-1 parameters
		// (explicit-self convention): prefer a donor with one parameter less
		var donors, any []*Def
		for _, d := range p.Defs {
			if d == g || d.Prov != "" {
				continue
			}
			if len(d.Params) == len(g.Params)-1 {
				donors = append(donors, d)
			} else if len(d.Params) != len(g.Params) {
				any = append(any, d)
			}
		}
		if len(donors) == 0 || intn(4) == 0 {
			donors = append(donors, any...)
		}
		if len(donors) == 0 {
			return ""
		}
		d := donors[intn(len(donors))]
		cp := *d
		cp.Name = g.Name
		p.Defs = append([]*Def{&cp}, p.Defs...)
		return fmt.Sprintf("a copy of %s/%d inserted in front under the name %s (which has %d parameters)", d.Name, len(d.Params), g.Name, len(g.Params))
	case 15, 16, 17, 18, 19:
		if d := mutateStructure(p, intn); d != "" {
			return "structure: " + d
		}
		return ""
	case 13, 14: // a case lists one label twice (and so may hide a missing one)
		var cands []*Case
		for _, t := range allTerms(p) {
			if x, ok := t.(*Case); ok && len(x.Brs) >= 2 {
				cands = append(cands, x)
			}
		}
		if len(cands) == 0 {
			return ""
		}
		x := cands[intn(len(cands))]
		i := intn(len(x.Brs))
		j := (i + 1 + intn(len(x.Brs)-1)) % len(x.Brs)
		old := x.Brs[j].Label
		x.Brs[j].Label = x.Brs[i].Label
		return fmt.Sprintf("case %s: label %s replaced by a second %s", x.From, old, x.Brs[i].Label)
	case 11, 12: // a closed body replaced by `h(self)` for some parameterless definition h (of whatever type)
		var nullary []*Def
		for _, d := range p.Defs {
			if len(d.Params) == 0 {
				nullary = append(nullary, d)
			}
		}
		if len(nullary) == 0 {
			return ""
		}
		type site struct {
			body *Term
			ty   *Ty
			name string
		}
		var sites []site
		for _, d := range p.Defs {
			if len(d.Params) == 0 && d.Prov == "" {
				sites = append(sites, site{&d.Body, d.Res, d.Name})
			}
		}
		for _, q := range p.Procs {
			if q.Exec == "" && len(q.Names) == 1 {
				fv := map[string]bool{}
				FV(q.Body, map[string]bool{}, fv)
				if len(fv) == 0 {
					sites = append(sites, site{&q.Body, q.T, q.Names[0]})
				}
			}
		}
		if len(sites) == 0 {
			return ""
		}
		s := sites[intn(len(sites))]
		h := nullary[intn(len(nullary))]
		if h.Name == s.name {
			return ""
		}
		*s.body = &Call{F: h.Name, Args: []string{"self"}}
		return fmt.Sprintf("body of %s (type %s) replaced by %s(self) (type %s)", s.name, s.ty.Text(), h.Name, h.Res.Text())
	case 9, 10: // change the declared provider type of a definition or process that hands its provider to a callee
		hasSelfCall := func(t Term) bool {
			found := false
			var walk func(t Term)
			walk = func(t Term) {
				switch x := t.(type) {
				case *Call:
					if len(x.Args) > 0 && (x.Args[0] == "self") {
						found = true
					}
				case *Recv:
					walk(x.K)
				case *Case:
					for _, b := range x.Brs {
						walk(b.K)
					}
				case *New:
					walk(x.K)
				case *Wait:
					walk(x.K)
				case *Split:
					walk(x.K)
				case *Drop:
					walk(x.K)
				case *Print:
					walk(x.K)
				case *Shift:
					walk(x.K)
				}
			}
			walk(t)
			return found
		}
		var sites []**Ty
		for _, d := range p.Defs {
			if hasSelfCall(d.Body) {
				sites = append(sites, &d.Res)
			}
		}
		for _, q := range p.Procs {
			if q.Exec == "" && hasSelfCall(q.Body) {
				sites = append(sites, &q.T)
			}
		}
		all := annotationSites(p)
		if len(sites) == 0 || len(all) == 0 {
			return ""
		}
		s := sites[intn(len(sites))]
		other := *all[intn(len(all))]
		if key(other) == key(*s) {
			other = &Ty{K: KPlus, M: (*s).M, Brs: []Br{{"a", &Ty{K: KUnit, M: (*s).M}}}}
		}
		old := *s
		*s = other
		return fmt.Sprintf("provider type %s of a definition with an explicit-self call replaced by %s", old.Text(), other.Text())
	case 6, 7, 8: // call a different definition of the same arity (explicit-self calls first)
		var cands []*Call
		for _, t := range allTerms(p) {
			if x, ok := t.(*Call); ok {
				cands = append(cands, x)
			}
		}
		if len(cands) == 0 || len(p.Defs) < 2 {
			return ""
		}
		x := cands[intn(len(cands))]
		for _, c := range cands {
			if len(c.Args) > 0 && c.Args[0] == "self" && intn(2) == 1 {
				x = c
				break
			}
		}
		n := len(x.Args)
		if n > 0 && x.Args[0] == "self" {
			n--
		}
		var others []string
		for _, d := range p.Defs {
			if d.Name != x.F && len(d.Params) == n {
				others = append(others, d.Name)
			}
		}
		if len(others) == 0 {
			return ""
		}
		old := x.F
		x.F = others[intn(len(others))]
		return fmt.Sprintf("call of %s replaced by a call of %s", old, x.F)
	case 0, 1:
		return ApplyWrongAlias(p, intn)
	case 2: // swap payload and continuation of a send, or two arguments of a call
		var cands []Term
		for _, t := range allTerms(p) {
			switch x := t.(type) {
			case *Send:
				if x.Cont != "self" && x.Payload != "self" {
					cands = append(cands, t)
				}
			case *Call:
				if len(x.Args) >= 2 {
					cands = append(cands, t)
				}
			}
		}
		if len(cands) == 0 {
			return ""
		}
		switch x := cands[intn(len(cands))].(type) {
		case *Send:
			x.Payload, x.Cont = x.Cont, x.Payload
			return "send: payload and continuation swapped"
		case *Call:
			i := intn(len(x.Args) - 1)
			x.Args[i], x.Args[i+1] = x.Args[i+1], x.Args[i]
			return fmt.Sprintf("call %s: arguments %d and %d swapped", x.F, i, i+1)
		}
	case 3: // change the label of a select
		var cands []*Sel
		for _, t := range allTerms(p) {
			if x, ok := t.(*Sel); ok {
				cands = append(cands, x)
			}
		}
		if len(cands) == 0 {
			return ""
		}
		x := cands[intn(len(cands))]
		old := x.Label
		x.Label = []string{"a", "b", "c", "z", "s", "next", "stop"}[intn(7)]
		if x.Label == old {
			return ""
		}
		return fmt.Sprintf("select: label %s replaced by %s", old, x.Label)
	case 4: // replace the declared type of a definition's result or of a process by another type in use
		sites := annotationSites(p)
		if len(sites) < 2 {
			return ""
		}
		i, j := intn(len(sites)), intn(len(sites))
		if key(*sites[i]) == key(*sites[j]) {
			return ""
		}
		old := *sites[i]
		*sites[i] = *sites[j]
		return fmt.Sprintf("annotation %s replaced by %s", old.Text(), (*sites[j]).Text())
	default: // re-associate a nested product / function type in one annotation (prints alike)
		sites := annotationSites(p)
		var cands []**Ty
		for _, s := range sites {
			t := *s
			if (t.K == KTimes || t.K == KLolli) && t.L != nil && t.R != nil && (t.R.K == t.K) {
				cands = append(cands, s)
			}
		}
		if len(cands) == 0 {
			return ""
		}
		s := cands[intn(len(cands))]
		t := *s
		// A op (B op C)  ->  (A op B) op C
		n := &Ty{K: t.K, M: t.M, L: &Ty{K: t.K, M: t.M, L: t.L, R: t.R.L}, R: t.R.R}
		*s = n
		return fmt.Sprintf("annotation %s re-associated to %s", t.String(), n.String())
	}
	return ""
}

// MutateNames applies up to k single-occurrence name edits to the program: a use or a
// binder is replaced by another name that occurs in the program, by `self`, or by an
// undefined name. The results pass the preliminary checks and fail (or not) deep inside
// the checker - the inputs nobody thought of for C09.
func MutateNames(p *Program, intn func(int) int, k int) int {
	terms := allTerms(p)
	if len(terms) == 0 {
		return 0
	}
	names := map[string]bool{}
	for _, d := range p.Defs {
		for _, q := range d.Params {
			names[q.N] = true
		}
		collectNames(d.Body, names)
	}
	for _, q := range p.Procs {
		for _, n := range q.Names {
			names[n] = true
		}
		collectNames(q.Body, names)
	}
	pool := append(SortedKeys(names), "self", "zz")
	pick := func() string {
		n := pool[intn(len(pool))]
		// now and then an explicit polarity annotation on the name
		switch intn(8) {
		case 1:
			return "+" + n
		case 2:
			return "-" + n
		}
		return n
	}
	n := 1 + intn(k)
	done := 0
	for i := 0; i < n; i++ {
		t := terms[intn(len(terms))]
		switch x := t.(type) {
		case *Send:
			switch intn(3) {
			case 0:
				x.To = pick()
			case 1:
				x.Payload = pick()
			default:
				x.Cont = pick()
			}
		case *Recv:
			switch intn(3) {
			case 0:
				x.X = pick()
			case 1:
				x.Y = pick()
			default:
				x.From = pick()
			}
		case *Sel:
			if intn(2) == 0 {
				x.To = pick()
			} else {
				x.Cont = pick()
			}
		case *Case:
			if intn(2) == 0 || len(x.Brs) == 0 {
				x.From = pick()
			} else {
				x.Brs[intn(len(x.Brs))].Payload = pick()
			}
		case *New:
			// a cut's binder renamed to a name that is live, was consumed, or is used by its own body
			fv := map[string]bool{}
			FV(x.Body, map[string]bool{}, fv)
			if ks := SortedKeys(fv); len(ks) > 0 && intn(2) == 1 {
				x.X = ks[intn(len(ks))]
				if intn(2) == 1 {
					// and one more edit inside the body, so that the body's own context is off as well
					switch b := x.Body.(type) {
					case *Send:
						b.Payload = pick()
					case *Sel:
						b.Cont = pick()
					case *Call:
						b.Args = append(b.Args, pick())
					case *Fwd:
						b.From = pick()
					case *Cast:
						b.Cont = pick()
					}
				}
			} else {
				x.X = pick()
			}
			if intn(3) == 0 {
				x.Ann = !x.Ann
			}
		case *Call:
			if len(x.Args) > 0 {
				x.Args[intn(len(x.Args))] = pick()
			} else {
				x.Args = append(x.Args, pick())
			}
		case *Wait:
			x.X = pick()
		case *Fwd:
			if intn(2) == 0 {
				x.From = pick()
			} else {
				x.To = pick()
			}
		case *Split:
			switch intn(3) {
			case 0:
				x.X1 = pick()
			case 1:
				x.X2 = pick()
			default:
				x.From = pick()
			}
		case *Drop:
			x.X = pick()
		case *Cast:
			if intn(2) == 0 {
				x.To = pick()
			} else {
				x.Cont = pick()
			}
		case *Shift:
			if intn(2) == 0 {
				x.X = pick()
			} else {
				x.From = pick()
			}
		case *Close:
			x.X = pick()
		default:
			continue
		}
		done++
	}
	return done
}
