package gen

import (
	"fmt"
	"strings"
)

// NearMiss builds a small closed program that is ill typed only deep inside a recursive type:
// a recursive type A and a chain B1 .. Bd, C that agrees with A for d unfoldings and differs in
// one leaf afterwards (C's `done` branch carries X instead of 1). A producer written against one
// of the two is connected to a consumer written against the other (call argument, typed forward
// cut, result type of a tail call, annotation of a top-level process). A sound checker rejects
// every one of these programs; a checker whose type equality gives up too early (hypotheses keyed
// too coarsely, depth limits, name-only comparison) accepts some, and the run then ends in a
// protocol error - a violation of "accepted programs never hit a runtime protocol error". The
// producer's value is long enough to reach the leaf that differs.
//
// With control = true X is 1: the two spellings are equal, the program must be accepted and run
// without error (this keeps the probe honest: its programs are rejected for the deep difference
// and for nothing else). The second result describes the variant.
func NearMiss(intn func(int) int, control bool) (string, string) {
	switch intn(4) {
	case 0:
		return nearMissRepeated(intn, control)
	case 1:
		return nearMissLabelSet(intn, control)
	}
	m := []string{"", "lin "}[intn(2)]
	lbls := [][2]string{{"more", "done"}, {"s", "z"}, {"a", "b"}}[intn(3)]
	more, done := lbls[0], lbls[1]
	d := 1 + intn(3)
	n := d + intn(3)
	neg := intn(3) == 0
	flip := intn(2) == 1
	conn := intn(4)
	xk := intn(4)
	var sb strings.Builder
	w := func(f string, a ...any) { fmt.Fprintf(&sb, f+"\n", a...) }
	// X and how a client consumes a channel y of that type (ending the consumer with `close self`)
	xTy := []string{"(1 * 1)", "+{k : 1}", "&{k : 1}", "(1 -* 1)"}[xk]
	consumeX := []string{
		"<ya, yb> <- recv y; wait ya; wait yb; close self",
		"case y (k<yw> => wait yw; close self)",
		"yr : " + m + "1 <- new y.k<self>; wait yr; close self",
		"yu <- new mkU(); yr : " + m + "1 <- new send y<yu, self>; wait yr; close self",
	}[xk]
	// a closed provider of X (the body of mkX)
	provideX := []string{
		"xa <- new mkU(); xb <- new mkU(); send self<xa, xb>",
		"xa <- new mkU(); self.k<xa>",
		"case self (k<xz> => close self)",
		"<xa, xz> <- recv self; wait xa; close self",
	}[xk]
	if control {
		// control: X = 1, the chain really is equal to A; the program is well typed and runs cleanly
		xTy, consumeX, provideX = "1", "wait y; close self", "close self"
	}
	w("let mkU() : %s1 = close self", m)
	if !neg {
		op := "+"
		w("type A = %s%s{%s : A, %s : 1}", m, op, more, done)
		for i := 1; i <= d; i++ {
			next := fmt.Sprintf("B%d", i+1)
			if i == d {
				next = "C"
			}
			w("type B%d = %s%s{%s : %s, %s : 1}", i, m, op, more, next, done)
		}
		w("type C = %s%s{%s : C, %s : %s}", m, op, more, done, xTy)
		if !flip {
			// producer written for A (n times `more`, then `done` over a unit), consumer for the B chain
			w("let mkV() : %sA = vt <- new mkU(); v0 : %sA <- new self.%s<vt>; %sself.%s<v%d>", m, m, done, chain(m, "A", more, n), more, n-1)
			for i := 1; i <= d; i++ {
				next := fmt.Sprintf("eatB%d", i+1)
				if i == d {
					next = "eatC"
				}
				w("let eatB%d(x : %sB%d) : %s1 = case x (%s<y> => print p; %s(y) | %s<y> => wait y; close self)", i, m, i, m, more, next, done)
			}
			w("let eatC(x : %sC) : %s1 = case x (%s<y> => print q; eatC(y) | %s<y> => print u; %s)", m, m, more, done, consumeX)
			connect(w, m, conn, "A", "B1", "eatB1")
		} else {
			// producer written for the B chain: n >= d times `more`, then `done` over an X; consumer for A
			w("let mkX() : %s%s = %s", m, xTy, provideX)
			var sb2 strings.Builder
			// innermost value lives at type C (or deeper C), outer layers at B_d .. B_1
			tyAt := func(layer int) string { // layer = number of `more`s outside this value
				if layer >= d {
					return "C"
				}
				return fmt.Sprintf("B%d", layer+1)
			}
			fmt.Fprintf(&sb2, "vt <- new mkX(); v0 : %s%s <- new self.%s<vt>; ", m, tyAt(n), done)
			for i := 1; i < n; i++ {
				fmt.Fprintf(&sb2, "v%d : %s%s <- new self.%s<v%d>; ", i, m, tyAt(n-i), more, i-1)
			}
			w("let mkV() : %sB1 = %sself.%s<v%d>", m, sb2.String(), more, n-1)
			w("let eatA(x : %sA) : %s1 = case x (%s<y> => print p; eatA(y) | %s<y> => print u; wait y; close self)", m, m, more, done)
			connect(w, m, conn, "B1", "A", "eatA")
		}
		return sb.String(), fmt.Sprintf("positive d=%d n=%d flip=%v conn=%d x=%d mode=%q control=%v", d, n, flip, conn, xk, m, control)
	}
	// negative family: a server of S = &{next : S, stop : 1} used by a client written for a chain
	// that expects an X behind the (d+k)-th `stop`
	w("type A = %s&{%s : A, %s : 1}", m, more, done)
	for i := 1; i <= d; i++ {
		next := fmt.Sprintf("B%d", i+1)
		if i == d {
			next = "C"
		}
		w("type B%d = %s&{%s : %s, %s : 1}", i, m, more, next, done)
	}
	w("type C = %s&{%s : C, %s : %s}", m, more, done, xTy)
	w("let mkV() : %sA = case self (%s<z> => print p; mkV() | %s<z> => print u; close self)", m, more, done)
	// client: n times `more` (n >= d), then `done`, then consumes an X
	var cl strings.Builder
	tyAt := func(k int) string { // type of the server after k `more`s, in the client's view
		if k >= d {
			return "C"
		}
		return fmt.Sprintf("B%d", k+1)
	}
	prev := "x"
	for i := 1; i <= n; i++ {
		fmt.Fprintf(&cl, "k%d : %s%s <- new %s.%s<self>; ", i, m, tyAt(i), prev, more)
		prev = fmt.Sprintf("k%d", i)
	}
	fmt.Fprintf(&cl, "y : %s%s <- new %s.%s<self>; print q; %s", m, xTy, prev, done, consumeX)
	w("let useB(x : %sB1) : %s1 = %s", m, m, cl.String())
	connect(w, m, conn, "A", "B1", "useB")
	return sb.String(), fmt.Sprintf("negative d=%d n=%d conn=%d x=%d mode=%q control=%v", d, n, conn, xk, m, control)
}

// chain: `v1 : A <- new self.more<v0>; ... ` up to v(n-1)
func chain(m, ty, more string, n int) string {
	var sb strings.Builder
	for i := 1; i < n; i++ {
		fmt.Fprintf(&sb, "v%d : %s%s <- new self.%s<v%d>; ", i, m, ty, more, i-1)
	}
	return sb.String()
}

// connect: mkV() provides `from`; consumer `eat` expects `to`.
func connect(w func(string, ...any), m string, conn int, from, to, eat string) {
	switch conn {
	case 0: // call argument
		w("prc[main] : %s1 = v <- new mkV(); e <- new %s(v); wait e; close self", m, eat)
	case 1: // typed forward cut
		w("prc[main] : %s1 = v <- new mkV(); f : %s%s <- new fwd self v; e <- new %s(f); wait e; close self", m, m, to, eat)
	case 2: // result type of a tail call
		w("let mkW() : %s%s = mkV()", m, to)
		w("prc[main] : %s1 = v <- new mkW(); e <- new %s(v); wait e; close self", m, eat)
	default: // annotation of a top-level process
		w("prc[pa] : %s%s = mkV()", m, to)
		w("prc[main] : %s1 = e <- new %s(pa); wait e; close self", m, eat)
	}
}

// nearMissRepeated: a type name A used twice inside one type (A * A), compared with a structural
// type whose two components have the same outermost constructor as A's definition but differ
// inside the second one. An equality that remembers "A was already compared with something of
// this shape" accepts it. Producer and consumer are written against the two spellings; the run
// uses the second component.
func nearMissRepeated(intn func(int) int, control bool) (string, string) {
	m := []string{"", "lin "}[intn(2)]
	k := intn(4)
	flip := intn(2) == 1
	conn := intn(4)
	type row struct{ s1, s2, mk1, mk2, use1, use2, aux string }
	rows := []row{
		{"1 -* 1", "+{l : 1} -* 1",
			"<u, z> <- recv self; wait u; close self",
			"<u, z> <- recv self; case u (l<w> => wait w; close self)",
			"u <- new mkU(); r : " + m + "1 <- new send y<u, self>; wait r; close self",
			"u <- new mkL(); r : " + m + "1 <- new send y<u, self>; wait r; close self",
			"let mkL() : " + m + "+{l : 1} = u <- new mkU(); self.l<u>"},
		{"&{l : 1}", "&{l : 1 * 1}",
			"case self (l<z> => close self)",
			"case self (l<z> => a <- new mkU(); b <- new mkU(); send self<a, b>)",
			"r : " + m + "1 <- new y.l<self>; wait r; close self",
			"r : " + m + "(1 * 1) <- new y.l<self>; <a, b> <- recv r; wait a; wait b; close self", ""},
		{"+{l : 1}", "+{l : 1 * 1}",
			"u <- new mkU(); self.l<u>",
			"a <- new mkU(); b <- new mkU(); p : " + m + "(1 * 1) <- new send self<a, b>; self.l<p>",
			"case y (l<w> => wait w; close self)",
			"case y (l<w> => <a, b> <- recv w; wait a; wait b; close self)", ""},
		{"1 * 1", "(1 * 1) * 1",
			"a <- new mkU(); b <- new mkU(); send self<a, b>",
			"a1 <- new mkU(); a2 <- new mkU(); a : " + m + "(1 * 1) <- new send self<a1, a2>; b <- new mkU(); send self<a, b>",
			"<a, b> <- recv y; wait a; wait b; close self",
			"<a, b> <- recv y; <a1, a2> <- recv a; wait a1; wait a2; wait b; close self", ""},
	}
	r := rows[k]
	if control {
		r.s2, r.mk2, r.use2 = r.s1, r.mk1, r.use1
	}
	var sb strings.Builder
	w := func(f string, a ...any) { fmt.Fprintf(&sb, f+"\n", a...) }
	w("let mkU() : %s1 = close self", m)
	if r.aux != "" {
		w("%s", r.aux)
	}
	w("type A = %s%s", m, r.s1)
	w("type P1 = %sA * A", m)
	w("type P2 = %s(%s) * (%s)", m, r.s1, r.s2)
	w("let mk1() : %s(%s) = %s", m, r.s1, r.mk1)
	w("let mk2() : %s(%s) = %s", m, r.s2, r.mk2)
	w("let use1(y : %s(%s)) : %s1 = print p; %s", m, r.s1, m, r.use1)
	w("let use2(y : %s(%s)) : %s1 = print q; %s", m, r.s2, m, r.use2)
	if !flip {
		// the value really is S1 * S2; the consumer believes A * A
		w("let mkV() : %sP2 = x <- new mk1(); y <- new mk2(); send self<x, y>", m)
		w("let eat(v : %sP1) : %s1 = <x, y> <- recv v; e1 <- new use1(x); wait e1; e2 <- new use1(y); wait e2; close self", m, m)
		connect(w, m, conn, "P2", "P1", "eat")
	} else {
		// the value really is A * A; the consumer believes S1 * S2
		w("let mkV() : %sP1 = x <- new mk1(); y <- new mk1(); send self<x, y>", m)
		w("let eat(v : %sP2) : %s1 = <x, y> <- recv v; e1 <- new use1(x); wait e1; e2 <- new use2(y); wait e2; close self", m, m)
		connect(w, m, conn, "P1", "P2", "eat")
	}
	return sb.String(), fmt.Sprintf("repeated-name row=%d flip=%v conn=%d mode=%q control=%v", k, flip, conn, m, control)
}

// nearMissLabelSet: two choices that differ only in their SET of labels (one has a label the
// other lacks). The side that knows the extra label uses it; the other side has no branch for it.
func nearMissLabelSet(intn func(int) int, control bool) (string, string) {
	m := []string{"", "lin "}[intn(2)]
	neg := intn(2) == 1
	conn := intn(4)
	wide, narrow := "{a : 1, b : 1}", "{a : 1}"
	if control {
		narrow = wide
	}
	var sb strings.Builder
	w := func(f string, a ...any) { fmt.Fprintf(&sb, f+"\n", a...) }
	w("let mkU() : %s1 = close self", m)
	if !neg {
		// the value selects b; the consumer only knows a (control: knows both)
		w("type A = %s+%s", m, wide)
		w("type B = %s+%s", m, narrow)
		w("let mkV() : %sA = u <- new mkU(); print p; self.b<u>", m)
		if control {
			w("let eat(x : %sB) : %s1 = case x (a<y> => print q; wait y; close self | b<y> => print u; wait y; close self)", m, m)
		} else {
			w("let eat(x : %sB) : %s1 = case x (a<y> => print q; wait y; close self)", m, m)
		}
		connect(w, m, conn, "A", "B", "eat")
		return sb.String(), fmt.Sprintf("label-set positive conn=%d mode=%q control=%v", conn, m, control)
	}
	// the server only offers a; the client believes it also offers b and asks for it
	w("type A = %s&%s", m, narrow)
	w("type B = %s&%s", m, wide)
	if control {
		w("let mkV() : %sA = case self (a<z> => print p; close self | b<z> => print u; close self)", m)
	} else {
		w("let mkV() : %sA = case self (a<z> => print p; close self)", m)
	}
	w("let eat(x : %sB) : %s1 = k : %s1 <- new x.b<self>; print q; wait k; close self", m, m, m)
	connect(w, m, conn, "A", "B", "eat")
	return sb.String(), fmt.Sprintf("label-set negative conn=%d mode=%q control=%v", conn, m, control)
}
