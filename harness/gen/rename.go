package gen

import (
	"fmt"
	"strings"

	. "verifharness/lang"
)

// REN: admissible renamings for C14. Rename builds r(P) from P:
//   - every binder (receive, case payload, cut, split, shift, parameters, explicit
//     provider, top-level provider names) gets a new spelling that is either fresh or
//     deliberately *colliding but capture-free*: spelled like a binder or parameter of
//     another definition, like a top-level name that is not free in the binder's scope,
//     or like a name that was already consumed;
//   - function names, type names, branch labels and print labels are renamed consistently;
//   - declarations are permuted.
// The capture-avoidance condition is the textbook one: a binder b with scope K may be
// spelled s iff s is not the new spelling of any v in FV(K)\{b} and differs from its
// sibling binders.

var keywords = map[string]bool{}

func init() {
	for _, k := range []string{"send", "recv", "receive", "case", "close", "wait", "cast", "shift", "accept", "acc", "acquire", "acq", "detach", "det", "release", "rel",
		"drop", "split", "push", "new", "snew", "forward", "fwd", "type", "let", "in", "end", "sprc", "prc", "self", "assuming", "exec", "print",
		"r", "rep", "replicable", "m", "mul", "multicast", "a", "aff", "affine", "l", "lin", "linear", "root"} {
		keywords[k] = true
	}
}

type Renaming struct {
	Labels         map[string]string // print labels: old -> new
	Collisions     int               // binders given a deliberately colliding spelling
	AliasShadows   int               // case payloads deliberately spelled like the provider alias
	CrossNamespace int               // functions spelled like a type, a channel or a label
	Permuted       bool
	FuncsRen       int
	TypesRen       int
	BranchesRen    int
}

type renamer struct {
	intn    func(int) int
	funcs   map[string]string
	types   map[string]string
	brs     map[string]string
	plabels map[string]string
	tops    map[string]string
	pool    []string // spellings used somewhere in the program (other definitions' binders, parameters)
	fresh   int
	tymemo  map[*Ty]*Ty
	info    *Renaming
	curProv string // explicit provider name (old spelling) of the definition being renamed
	opts    RenameOpts
}

func (r *renamer) freshName() string {
	r.fresh++
	return fmt.Sprintf("n%d", r.fresh)
}

func (r *renamer) ty(t *Ty) *Ty {
	if t == nil {
		return nil
	}
	if n, ok := r.tymemo[t]; ok {
		return n
	}
	n := *t
	r.tymemo[t] = &n
	if t.K == KNamed {
		if nn, ok := r.types[t.Name]; ok {
			n.Name = nn
		}
	}
	n.L, n.R = r.ty(t.L), r.ty(t.R)
	n.Brs = nil
	for _, b := range t.Brs {
		l := b.L
		if nl, ok := r.brs[l]; ok {
			l = nl
		}
		n.Brs = append(n.Brs, Br{l, r.ty(b.T)})
	}
	return &n
}

// pick chooses the new spelling of a binder whose scope has the given forbidden spellings.
func (r *renamer) pick(forbidden map[string]bool, siblings ...string) string {
	bad := func(s string) bool {
		if forbidden[s] || keywords[s] || s == "" || (len(s) > 4 && s[:4] == "exec") {
			return true
		}
		for _, x := range siblings {
			if x == s {
				return true
			}
		}
		return false
	}
	if len(r.pool) > 0 && r.intn(2) == 1 {
		for try := 0; try < 3; try++ {
			s := r.pool[r.intn(len(r.pool))]
			if !bad(s) {
				r.info.Collisions++
				return s
			}
		}
	}
	for {
		s := r.freshName()
		if !bad(s) {
			return s
		}
	}
}

func fvOf(t Term) map[string]bool {
	out := map[string]bool{}
	FV(t, map[string]bool{}, out)
	return out
}

// forbiddenIn returns the new spellings of the variables free in scope (minus the binders themselves).
func (r *renamer) forbiddenIn(scope Term, env map[string]string, binders ...string) map[string]bool {
	f := map[string]bool{}
	for v := range fvOf(scope) {
		skip := false
		for _, b := range binders {
			if b == v {
				skip = true
			}
		}
		if skip {
			continue
		}
		if s, ok := env[v]; ok {
			f[s] = true
		} else {
			f[v] = true
		}
	}
	return f
}

func union(a, b map[string]bool) map[string]bool {
	n := make(map[string]bool, len(a)+len(b))
	for k := range a {
		n[k] = true
	}
	for k := range b {
		n[k] = true
	}
	return n
}

func with1(env map[string]string, kv ...string) map[string]string {
	n := make(map[string]string, len(env)+2)
	for k, v := range env {
		n[k] = v
	}
	for i := 0; i+1 < len(kv); i += 2 {
		n[kv[i]] = kv[i+1]
	}
	return n
}

func (r *renamer) nm(env map[string]string, n string) string {
	if n == "self" {
		return n
	}
	if s, ok := env[n]; ok {
		return s
	}
	return n
}

func (r *renamer) isSelf(n string) bool { return n == "self" || (r.curProv != "" && n == r.curProv) }

func (r *renamer) nmOpt(env map[string]string, n string) string {
	if n == "" {
		return ""
	}
	return r.nm(env, n)
}

func (r *renamer) br(l string) string {
	if n, ok := r.brs[l]; ok {
		return n
	}
	return l
}

// term renames t. res holds spellings that denote the provider in the rest of the body
// (the continuation bound by a receive/case/shift on self, an explicit provider name, a
// process's own single name): Grits keeps such a name as an alias of self, so no later
// binder may take it.
func (r *renamer) term(t Term, env map[string]string, res map[string]bool) Term {
	switch x := t.(type) {
	case *Send:
		return &Send{To: r.nm(env, x.To), Payload: r.nm(env, x.Payload), Cont: r.nm(env, x.Cont)}
	case *Recv:
		f := union(r.forbiddenIn(x.K, env, x.X, x.Y), res)
		nx := r.pick(f)
		ny := r.pick(f, nx)
		resK := res
		if r.isSelf(x.From) || res[r.nm(env, x.From)] {
			resK = union(res, map[string]bool{ny: true})
		}
		return &Recv{X: nx, Y: ny, From: r.nm(env, x.From), XT: r.ty(x.XT), YT: r.ty(x.YT), K: r.term(x.K, with1(env, x.X, nx, x.Y, ny), resK)}
	case *Sel:
		return &Sel{To: r.nm(env, x.To), Label: r.br(x.Label), Cont: r.nm(env, x.Cont)}
	case *Case:
		n := &Case{From: r.nm(env, x.From)}
		for _, b := range x.Brs {
			np := ""
			if r.opts.ShadowAlias && !(r.isSelf(x.From) || res[r.nm(env, x.From)]) && len(res) > 0 && r.intn(2) == 1 {
				f := r.forbiddenIn(b.K, env, b.Payload)
				for _, a := range SortedKeys(res) {
					if !f[a] && !keywords[a] {
						np = a
						r.info.AliasShadows++
						break
					}
				}
			}
			if np == "" {
				np = r.pick(union(r.forbiddenIn(b.K, env, b.Payload), res))
			}
			resK := res
			if r.isSelf(x.From) || res[r.nm(env, x.From)] {
				resK = union(res, map[string]bool{np: true})
			}
			n.Brs = append(n.Brs, Branch{Label: r.br(b.Label), Payload: np, PT: r.ty(b.PT), K: r.term(b.K, with1(env, b.Payload, np), resK)})
		}
		return n
	case *New:
		f := union(r.forbiddenIn(x.K, env, x.X), res)
		if _, isCall := x.Body.(*Call); !isCall {
			// inside an axiom body the cut's own binder denotes the new provider (a shadow name
			// for self), so its scope includes the body: it must not be spelled like a channel
			// the body uses
			for k := range r.forbiddenIn(x.Body, env) {
				f[k] = true
			}
		}
		nx := r.pick(f)
		return &New{X: nx, XT: r.ty(x.XT), Ann: x.Ann, Body: r.term(x.Body, env, res), K: r.term(x.K, with1(env, x.X, nx), res)}
	case *Call:
		n := &Call{F: x.F}
		if nf, ok := r.funcs[x.F]; ok {
			n.F = nf
		}
		for _, a := range x.Args {
			n.Args = append(n.Args, r.nm(env, a))
		}
		return n
	case *Close:
		return &Close{X: r.nmOpt(env, x.X)}
	case *Wait:
		return &Wait{X: r.nm(env, x.X), K: r.term(x.K, env, res)}
	case *Fwd:
		return &Fwd{To: r.nmOpt(env, x.To), From: r.nm(env, x.From), T: r.ty(x.T), Pol: x.Pol}
	case *Split:
		f := union(r.forbiddenIn(x.K, env, x.X1, x.X2), res)
		n1 := r.pick(f)
		n2 := r.pick(f, n1)
		return &Split{X1: n1, X2: n2, From: r.nm(env, x.From), T: r.ty(x.T), K: r.term(x.K, with1(env, x.X1, n1, x.X2, n2), res)}
	case *Drop:
		return &Drop{X: r.nm(env, x.X), T: r.ty(x.T), K: r.term(x.K, env, res)}
	case *Print:
		l := x.L
		if nl, ok := r.plabels[l]; ok {
			l = nl
		}
		return &Print{L: l, K: r.term(x.K, env, res)}
	case *Cast:
		return &Cast{To: r.nm(env, x.To), Cont: r.nm(env, x.Cont)}
	case *Shift:
		nx := r.pick(union(r.forbiddenIn(x.K, env, x.X), res))
		resK := res
		if r.isSelf(x.From) || res[r.nm(env, x.From)] {
			resK = union(res, map[string]bool{nx: true})
		}
		return &Shift{X: nx, From: r.nm(env, x.From), XT: r.ty(x.XT), K: r.term(x.K, with1(env, x.X, nx), resK)}
	}
	panic(fmt.Sprintf("rename: %T", t))
}

func collectNames(t Term, out map[string]bool) {
	switch x := t.(type) {
	case *Recv:
		out[x.X], out[x.Y] = true, true
		collectNames(x.K, out)
	case *Case:
		for _, b := range x.Brs {
			out[b.Payload] = true
			collectNames(b.K, out)
		}
	case *New:
		out[x.X] = true
		collectNames(x.Body, out)
		collectNames(x.K, out)
	case *Wait:
		collectNames(x.K, out)
	case *Split:
		out[x.X1], out[x.X2] = true, true
		collectNames(x.K, out)
	case *Drop:
		collectNames(x.K, out)
	case *Print:
		collectNames(x.K, out)
	case *Shift:
		out[x.X] = true
		collectNames(x.K, out)
	}
}

// RenameOpts tunes Rename when it is used as a generator stage.
type RenameOpts struct {
	// ShadowAlias: the payload binder of a client-side case branch may be spelled like the name
	// that currently aliases the provider (the real checker does not test branch payloads for
	// freshness, so such programs are accepted; lexically the payload simply shadows the alias).
	ShadowAlias bool
}

// Rename returns r(P) and the description of r.
func Rename(p *Program, intn func(int) int, opts ...RenameOpts) (*Program, *Renaming) {
	info := &Renaming{Labels: map[string]string{}}
	r := &renamer{intn: intn, funcs: map[string]string{}, types: map[string]string{}, brs: map[string]string{}, plabels: map[string]string{},
		tops: map[string]string{}, tymemo: map[*Ty]*Ty{}, info: info}
	if len(opts) > 0 {
		r.opts = opts[0]
	}
	// pool of spellings that exist somewhere in P: binders, parameters, top-level names
	names := map[string]bool{}
	for _, d := range p.Defs {
		for _, q := range d.Params {
			names[q.N] = true
		}
		collectNames(d.Body, names)
	}
	for _, q := range p.Procs {
		if q.Exec != "" {
			continue // the synthetic execN provider names are reserved
		}
		for _, n := range q.Names {
			names[n] = true
		}
		collectNames(q.Body, names)
	}
	r.pool = SortedKeys(names)
	// functions, types, labels
	if intn(2) == 1 {
		for i, t := range p.Types {
			r.types[t.Name] = fmt.Sprintf("ty%d", i)
			info.TypesRen++
		}
	}
	if intn(2) == 1 {
		// functions: fresh spellings, or - the namespaces are separate - the spelling of a type,
		// of a channel name used somewhere in the program, or of a branch label
		used := map[string]bool{}
		for i, d := range p.Defs {
			n := fmt.Sprintf("g%d", i)
			switch intn(5) {
			case 1:
				if len(p.Types) > 0 {
					t := p.Types[intn(len(p.Types))].Name
					if nn, ok := r.types[t]; ok {
						t = nn
					}
					n = t
				}
			case 2:
				if len(r.pool) > 0 {
					n = r.pool[intn(len(r.pool))]
				}
			case 3:
				n = []string{"a", "b", "z", "s", "l", "lb"}[intn(6)]
			}
			if used[n] || keywords[n] || strings.HasPrefix(n, "exec") {
				n = fmt.Sprintf("g%d", i)
			}
			if n != fmt.Sprintf("g%d", i) {
				info.CrossNamespace++
			}
			used[n] = true
			r.funcs[d.Name] = n
			info.FuncsRen++
		}
	}
	// labels spelled a17, b52, ... (the generator's DistinctLabels profile): now and then they all
	// lose their number, so that different choices share spellings again - a renaming that is not
	// injective but cannot capture, since the labels of one choice keep different letters
	collapsed := false
	if intn(2) == 1 {
		for _, t := range allChoiceLabels(p) {
			if len(t) >= 2 && (t[0] == 'a' || t[0] == 'b' || t[0] == 'c') && strings.Trim(t[1:], "0123456789") == "" {
				r.brs[t] = t[:1]
				collapsed = true
			}
		}
		if collapsed {
			info.BranchesRen++
		}
	}
	if !collapsed && intn(2) == 1 {
		// deliberately related spellings: either prefix-related (l, lb, lbb, ...: every label is a
		// proper prefix of all later ones) or equal up to letter case (label, Label, lAbel, ...)
		caseScheme := intn(2) == 1
		spell := func(i int) string {
			if !caseScheme || i >= 32 {
				return "l" + strings.Repeat("b", i)
			}
			w := []byte("label")
			for b := 0; b < 5; b++ {
				if i&(1<<b) != 0 {
					w[b] = w[b] - 'a' + 'A'
				}
			}
			return string(w)
		}
		seen := map[string]bool{}
		var walk func(t *Ty)
		walk = func(t *Ty) {
			if t == nil || seen[fmt.Sprintf("%p", t)] {
				return
			}
			seen[fmt.Sprintf("%p", t)] = true
			for _, b := range t.Brs {
				if _, ok := r.brs[b.L]; !ok {
					r.brs[b.L] = spell(len(r.brs))
					info.BranchesRen++
				}
				walk(b.T)
			}
			walk(t.L)
			walk(t.R)
		}
		for _, t := range p.Types {
			walk(t.T)
		}
		for _, d := range p.Defs {
			for _, q := range d.Params {
				walk(q.T)
			}
			walk(d.Res)
		}
		for _, q := range p.Procs {
			walk(q.T)
		}
		// types that only occur in annotations inside bodies
		var wt func(t Term)
		wt = func(t Term) {
			switch x := t.(type) {
			case *Recv:
				walk(x.XT)
				walk(x.YT)
				wt(x.K)
			case *Case:
				for _, b := range x.Brs {
					walk(b.PT)
					wt(b.K)
				}
			case *New:
				walk(x.XT)
				wt(x.Body)
				wt(x.K)
			case *Wait:
				wt(x.K)
			case *Fwd:
				walk(x.T)
			case *Split:
				walk(x.T)
				wt(x.K)
			case *Drop:
				walk(x.T)
				wt(x.K)
			case *Print:
				wt(x.K)
			case *Shift:
				walk(x.XT)
				wt(x.K)
			}
		}
		for _, d := range p.Defs {
			wt(d.Body)
		}
		for _, q := range p.Procs {
			wt(q.Body)
		}
	}
	if intn(2) == 1 {
		// print labels: a permutation-like injective map onto new spellings
		for i, l := range []string{"p", "q", "u", "v", "w"} {
			r.plabels[l] = fmt.Sprintf("k%d", (i+1+intn(3))%5)
		}
		// make it injective
		used := map[string]bool{}
		for _, l := range []string{"p", "q", "u", "v", "w"} {
			n := r.plabels[l]
			for used[n] {
				n = n + "x"
			}
			used[n] = true
			r.plabels[l] = n
		}
	}
	for k, v := range r.plabels {
		info.Labels[k] = v
	}
	// top-level provider names: global, must stay pairwise distinct
	usedTop := map[string]bool{}
	for _, q := range p.Procs {
		if q.Exec != "" {
			continue
		}
		for _, n := range q.Names {
			s := n
			if intn(2) == 1 {
				s = r.pick(usedTop)
			}
			for usedTop[s] {
				s = r.freshName()
			}
			usedTop[s] = true
			r.tops[n] = s
		}
	}
	np := &Program{TEnv: TyEnv{}}
	for _, t := range p.Types {
		nt := TypeDef{Name: t.Name, T: r.ty(t.T)}
		if nn, ok := r.types[t.Name]; ok {
			nt.Name = nn
		}
		np.Types = append(np.Types, nt)
		np.TEnv[nt.Name] = nt.T
	}
	for _, d := range p.Defs {
		nd := &Def{Name: d.Name, Res: r.ty(d.Res), Prov: d.Prov}
		if nn, ok := r.funcs[d.Name]; ok {
			nd.Name = nn
		}
		env := map[string]string{}
		f := r.forbiddenIn(d.Body, env, paramNames(d)...)
		var sib []string
		for _, q := range d.Params {
			s := r.pick(f, sib...)
			sib = append(sib, s)
			env[q.N] = s
			nd.Params = append(nd.Params, Param{N: s, T: r.ty(q.T)})
		}
		res := map[string]bool{}
		if d.Prov != "" {
			s := r.pick(f, sib...)
			env[d.Prov] = s
			nd.Prov = s
			res[s] = true
		}
		r.curProv = d.Prov
		nd.Body = r.term(d.Body, env, res)
		r.curProv = ""
		np.Defs = append(np.Defs, nd)
	}
	for _, q := range p.Procs {
		nq := &Proc{T: r.ty(q.T), Exec: q.Exec}
		if q.Exec != "" {
			if nn, ok := r.funcs[q.Exec]; ok {
				nq.Exec = nn
			}
			nq.Names = q.Names
			nq.Body = r.term(q.Body, map[string]string{}, map[string]bool{})
			np.Procs = append(np.Procs, nq)
			continue
		}
		for _, n := range q.Names {
			nq.Names = append(nq.Names, r.tops[n])
		}
		env := map[string]string{}
		for k, v := range r.tops {
			env[k] = v
		}
		res := map[string]bool{}
		if len(nq.Names) == 1 {
			res[nq.Names[0]] = true // a process's own single name denotes self inside its body
		}
		nq.Body = r.term(q.Body, env, res)
		np.Procs = append(np.Procs, nq)
	}
	if intn(2) == 1 {
		n := len(np.Types) + len(np.Defs) + len(np.Procs)
		ord := make([]int, n)
		for i := range ord {
			ord[i] = i
		}
		for i := n - 1; i > 0; i-- {
			j := intn(i + 1)
			ord[i], ord[j] = ord[j], ord[i]
		}
		np.Order = ord
		info.Permuted = true
	}
	return np, info
}

func paramNames(d *Def) []string {
	var ns []string
	for _, q := range d.Params {
		ns = append(ns, q.N)
	}
	if d.Prov != "" {
		ns = append(ns, d.Prov)
	}
	return ns
}

// allChoiceLabels lists the branch labels of every type that occurs in the program.
func allChoiceLabels(p *Program) []string {
	set := map[string]bool{}
	seen := map[*Ty]bool{}
	var walk func(t *Ty)
	walk = func(t *Ty) {
		if t == nil || seen[t] {
			return
		}
		seen[t] = true
		for _, b := range t.Brs {
			set[b.L] = true
			walk(b.T)
		}
		walk(t.L)
		walk(t.R)
	}
	for _, t := range p.Types {
		walk(t.T)
	}
	for _, d := range p.Defs {
		for _, q := range d.Params {
			walk(q.T)
		}
		walk(d.Res)
	}
	for _, q := range p.Procs {
		walk(q.T)
	}
	for _, t := range allTerms(p) {
		switch x := t.(type) {
		case *Recv:
			walk(x.XT)
			walk(x.YT)
		case *Case:
			for _, b := range x.Brs {
				walk(b.PT)
			}
		case *New:
			walk(x.XT)
		case *Fwd:
			walk(x.T)
		case *Split:
			walk(x.T)
		case *Drop:
			walk(x.T)
		case *Shift:
			walk(x.XT)
		}
	}
	return SortedKeys(set)
}
