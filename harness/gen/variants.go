package gen

import (
	"fmt"
	"strings"

	. "verifharness/lang"
)

// Type variants: equal types spelled differently (alias, alias chain, one-step
// unrolling, isomorphic copy, inline unrolling). ApplyTypeVariants rewrites some
// annotations of a generated program to such spellings; the program stays well
// typed, so every oracle (including REF) still applies. ApplyWrongAlias is a
// mutant (MUT): it replaces one annotation by an alias chain of a *different*
// type; whatever the real checker still accepts is in the domain of C01.

func progMode(p *Program) string {
	if len(p.Types) > 0 {
		return p.Types[0].T.M
	}
	return ""
}

func copyTy(t *Ty) *Ty {
	if t == nil {
		return nil
	}
	n := *t
	n.L, n.R = copyTyShallowNamed(t.L), copyTyShallowNamed(t.R)
	n.Brs = nil
	for _, b := range t.Brs {
		n.Brs = append(n.Brs, Br{b.L, copyTyShallowNamed(b.T)})
	}
	return &n
}

func copyTyShallowNamed(t *Ty) *Ty {
	if t == nil {
		return nil
	}
	if t.K == KNamed {
		n := *t
		return &n
	}
	return copyTy(t)
}

// rename replaces references to name `from` by `to` inside t (in place on a copy).
func renameIn(t *Ty, from, to string) *Ty {
	if t == nil {
		return nil
	}
	n := *t
	if n.K == KNamed {
		if n.Name == from {
			n.Name = to
		}
		return &n
	}
	n.L, n.R = renameIn(t.L, from, to), renameIn(t.R, from, to)
	n.Brs = nil
	for _, b := range t.Brs {
		n.Brs = append(n.Brs, Br{b.L, renameIn(b.T, from, to)})
	}
	return &n
}

type variantEnv struct {
	p    *Program
	intn func(int) int
	made map[string]string // key -> type name
	mode string
	n    int
}

func (v *variantEnv) define(name string, body *Ty) {
	body.M = v.mode
	v.p.Types = append(v.p.Types, TypeDef{Name: name, T: body})
	v.p.TEnv[name] = body
}

// variantOf returns a type equal to the named type `name`, spelled differently.
func (v *variantEnv) variantOf(name string) *Ty {
	body := v.p.TEnv[name]
	named := func(n string) *Ty { return &Ty{K: KNamed, Name: n, M: v.mode} }
	k := v.intn(5)
	key := fmt.Sprintf("%s/%d", name, k)
	if n, ok := v.made[key]; ok {
		return named(n)
	}
	switch k {
	case 0: // alias
		n := name + "A"
		v.define(n, named(name))
		v.made[key] = n
		return named(n)
	case 1: // alias chain of length two, declared in "wrong" order
		n1, n2 := name+"B", name+"C"
		v.define(n1, named(n2))
		v.define(n2, named(name))
		v.made[key] = n1
		return named(n1)
	case 2: // one-step unrolling under a new name
		n := name + "U"
		v.define(n, copyTy(body))
		v.made[key] = n
		return named(n)
	case 3: // isomorphic copy: same shape, recursion through the new name
		n := name + "I"
		v.define(n, renameIn(body, name, n))
		v.made[key] = n
		return named(n)
	default: // inline unrolling, no name at all
		t := copyTy(body)
		t.M = v.mode
		return t
	}
}

func (v *variantEnv) rewrite(t *Ty, prob int) *Ty {
	if t == nil {
		return nil
	}
	if t.K == KNamed {
		if _, ok := v.p.TEnv[t.Name]; ok && (t.Name == "nat" || t.Name == "srv") && v.intn(prob) == 1 {
			v.n++
			return v.variantOf(t.Name)
		}
		return t
	}
	n := *t
	n.L, n.R = v.rewrite(t.L, prob), v.rewrite(t.R, prob)
	n.Brs = nil
	for _, b := range t.Brs {
		n.Brs = append(n.Brs, Br{b.L, v.rewrite(b.T, prob)})
	}
	return &n
}

// annotation sites of a program: parameters, results, process types, annotated cuts.
func annotationSites(p *Program) []**Ty {
	var sites []**Ty
	var term func(t Term)
	term = func(t Term) {
		switch x := t.(type) {
		case *Recv:
			term(x.K)
		case *Case:
			for i := range x.Brs {
				term(x.Brs[i].K)
			}
		case *New:
			if x.Ann {
				sites = append(sites, &x.XT)
			}
			term(x.Body)
			term(x.K)
		case *Wait:
			term(x.K)
		case *Split:
			term(x.K)
		case *Drop:
			term(x.K)
		case *Print:
			term(x.K)
		case *Shift:
			term(x.K)
		}
	}
	for _, d := range p.Defs {
		for i := range d.Params {
			sites = append(sites, &d.Params[i].T)
		}
		sites = append(sites, &d.Res)
		term(d.Body)
	}
	for _, q := range p.Procs {
		if q.Exec == "" {
			sites = append(sites, &q.T)
			term(q.Body)
		}
	}
	return sites
}

// ApplyTypeVariants respells some annotations with equal types. Returns how many.
func ApplyTypeVariants(p *Program, intn func(int) int) int {
	v := &variantEnv{p: p, intn: intn, made: map[string]string{}, mode: progMode(p)}
	for _, s := range annotationSites(p) {
		*s = v.rewrite(*s, 3)
	}
	return v.n
}

// ApplyWrongAlias (MUT) replaces one annotation by an alias chain that ends in a
// structurally different type. Returns a description ("" if nothing applied).
func ApplyWrongAlias(p *Program, intn func(int) int) string {
	sites := annotationSites(p)
	if len(sites) == 0 {
		return ""
	}
	mode := progMode(p)
	s := sites[intn(len(sites))]
	orig := *s
	unit := &Ty{K: KUnit, M: mode}
	cands := []*Ty{
		unit,
		{K: KPlus, M: mode, Brs: []Br{{"z", unit}, {"s", unit}}},
		{K: KWith, M: mode, Brs: []Br{{"a", unit}}},
		{K: KTimes, M: mode, L: unit, R: unit},
		{K: KLolli, M: mode, L: unit, R: unit},
		{K: KNamed, M: mode, Name: "nat"},
		{K: KNamed, M: mode, Name: "srv"},
	}
	target := cands[intn(len(cands))]
	if target.String() == unfString(p.TEnv, orig) || target.String() == orig.String() {
		return ""
	}
	chain := 1 + intn(3)
	names := make([]string, chain)
	for i := range names {
		names[i] = fmt.Sprintf("W%d", i)
	}
	for i := 0; i < chain; i++ {
		var body *Ty
		if i == chain-1 {
			body = target
		} else {
			body = &Ty{K: KNamed, Name: names[i+1], M: mode}
		}
		p.Types = append(p.Types, TypeDef{Name: names[i], T: body})
		p.TEnv[names[i]] = body
	}
	*s = &Ty{K: KNamed, Name: names[0], M: mode}
	return fmt.Sprintf("annotation %s replaced by alias chain %s -> %s", orig.String(), strings.Join(names, " = "), target.String())
}

func unfString(e TyEnv, t *Ty) (s string) {
	defer func() { recover() }()
	return e.Unf(t).String()
}

// TypeStress builds small programs whose only purpose is to drive the checker's
// type equality, well-formedness and polarity code through unusual definition
// graphs: alias chains and cycles, isomorphic recursive types, unrolled copies,
// forwards and typed cuts between differently spelled types, explicit polarities.
func TypeStress(intn func(int) int) string {
	return TypeStressFamily(intn, 1)[0]
}

// TypeStressFamily returns n programs that share mode, labels and all function and process
// declarations but define the type names A and B differently: the sequence a cache of type
// facts that survives from one program to the next would get wrong (C19).
func TypeStressFamily(intn func(int) int, n int) []string {
	modes := []string{"", "", "lin ", "aff ", "mul ", "rep "}
	m := modes[intn(len(modes))]
	op := []string{"+", "&"}[intn(2)]
	lbl := []string{"l", "a", "z"}[intn(3)]
	var heads []string
	for i := 0; i < n; i++ {
		heads = append(heads, typeStressHead(intn, m, op, lbl))
	}
	tail := typeStressTail(intn, m, lbl)
	var out []string
	for _, h := range heads {
		if strings.HasSuffix(h, "\x00") {
			out = append(out, strings.TrimSuffix(h, "\x00")) // a complete program of its own
		} else {
			out = append(out, h+tail)
		}
	}
	return out
}

func typeStressHead(intn func(int) int, m, op, lbl string) string {
	var sb strings.Builder
	shape := intn(11)
	// base recursive (or not) type A and a partner B
	switch shape {
	case 0: // two isomorphic recursive types
		fmt.Fprintf(&sb, "type A = %s%s{%s : A}\ntype B = %s%s{%s : B}\n", m, op, lbl, m, op, lbl)
	case 1: // B is the unrolling of A
		fmt.Fprintf(&sb, "type A = %s%s{%s : A}\ntype B = %s%s{%s : %s{%s : A}}\n", m, op, lbl, m, op, lbl, op, lbl)
	case 2: // alias chain
		fmt.Fprintf(&sb, "type A = %sB\ntype B = %sC\ntype C = %s%s{%s : 1}\n", m, m, m, op, lbl)
	case 3: // alias to a unit / continuation named
		fmt.Fprintf(&sb, "type A = %s%s{%s : B}\ntype B = %s1\n", m, op, lbl, m)
	case 4: // alias cycle / self alias / duplicate definition (ill-formed: must be rejected, not crash)
		switch intn(4) {
		case 0:
			fmt.Fprintf(&sb, "type A = %sB\ntype B = %sA\n", m, m)
		case 1:
			fmt.Fprintf(&sb, "type A = %sA\ntype B = %s1\n", m, m)
		case 2:
			fmt.Fprintf(&sb, "type A = %sB\ntype A = %sA\ntype B = %s1\n", m, m, m)
		default:
			fmt.Fprintf(&sb, "type A = %sB\ntype B = %s%s{%s : A}\n", m, m, op, lbl)
		}
	case 5: // mutually recursive pair vs single recursive
		fmt.Fprintf(&sb, "type A = %s%s{%s : B}\ntype B = %s%s{%s : A}\n", m, op, lbl, m, op, lbl)
	case 6, 7: // recursive types of period two, to be compared out of phase (a name never meets a name)
		bin := []string{"*", "-*"}[intn(2)]
		fmt.Fprintf(&sb, "type A = %s1 %s (1 %s A)\ntype B = %s1 %s (1 %s B)\n", m, bin, bin, m, bin, bin)
		if shape == 7 {
			fmt.Fprintf(&sb, "let f(x : %s1 %s B) : %sA = fwd self x\n", m, bin, m)
			fmt.Fprintf(&sb, "let g(x : %s1 %s (1 %s (1 %s A))) : %sB = y : %s1 %s B <- new fwd self x; fwd self y\n", m, bin, bin, bin, m, m, bin)
			return sb.String() + "\x00"
		}
	case 10: // two families of choice types with shared sub-types, compared with each other
		d := 6 + intn(26)
		mm := m
		if mm == "" {
			mm = "lin "
		}
		for _, fam := range []string{"T", "U"} {
			for i := 0; i < d; i++ {
				fmt.Fprintf(&sb, "type %s%d = %s%s{a : %s%d, b : %s%d}\n", fam, i, mm, op, fam, i+1, fam, i+1)
			}
			fmt.Fprintf(&sb, "type %s%d = %s1\n", fam, d, mm)
		}
		fmt.Fprintf(&sb, "let f(x : %sT0) : %sU0 = fwd self x\n", mm, mm)
		return sb.String() + "\x00"
	case 9: // three names: an alias chain that leads into a cycle it is not part of
		cyc := [][2]string{{"C", "C"}, {"C", "D"}}[intn(2)]
		decls := []string{fmt.Sprintf("type A = %sB\n", m), fmt.Sprintf("type B = %sC\n", m), fmt.Sprintf("type C = %s%s\n", m, cyc[1])}
		if cyc[1] == "D" {
			decls = append(decls, fmt.Sprintf("type D = %sC\n", m))
		}
		if intn(2) == 1 { // declaration order matters to some walks
			for i, j := 0, len(decls)-1; i < j; i, j = i+1, j-1 {
				decls[i], decls[j] = decls[j], decls[i]
			}
		}
		sb.WriteString(strings.Join(decls, ""))
	case 8: // two plain structural types: equal or different, same polarity
		bodies := []string{"1 * 1", "1 * 1", "+{" + lbl + " : 1}", "+{" + lbl + " : 1, q : 1}", "1 * (1 * 1)", "1"}
		if op == "&" {
			bodies = []string{"1 -* 1", "1 -* 1", "&{" + lbl + " : 1}", "&{" + lbl + " : 1, q : 1}", "1 -* (1 -* 1)"}
		}
		fmt.Fprintf(&sb, "type A = %s%s\ntype B = %s%s\n", m, bodies[intn(len(bodies))], m, bodies[intn(len(bodies))])
	}
	return sb.String()
}

func typeStressTail(intn func(int) int, m, lbl string) string {
	var sb strings.Builder
	t1 := []string{"A", "B"}[intn(2)]
	t2 := []string{"A", "B"}[intn(2)]
	pol := []string{"", "+", "-"}
	bodies := []string{
		"fwd self x",
		fmt.Sprintf("y : %s%s <- new fwd self x; fwd self y", m, t2),
		fmt.Sprintf("x.%s<%sself>", lbl, pol[intn(3)]),
		fmt.Sprintf("case x (%s<y> => fwd self y)", lbl),
		fmt.Sprintf("case self (%s<y> => fwd self x)", lbl),
		fmt.Sprintf("self.%s<%sx>", lbl, pol[intn(3)]),
		fmt.Sprintf("y <- new f(x); fwd self y"),
		"drop x; close self",
		"wait x; close self",
		fmt.Sprintf("<u, v> <- split x; drop u; fwd self v"),
	}
	nf := 1 + intn(2)
	for i := 0; i < nf; i++ {
		name := []string{"f", "g"}[i]
		fmt.Fprintf(&sb, "let %s(x : %s%s) : %s%s = %s\n", name, m, t1, m, t2, bodies[intn(len(bodies))])
		t1, t2 = t2, []string{"A", "B", "1"}[intn(3)]
	}
	if intn(2) == 1 {
		fmt.Fprintf(&sb, "prc[a] : %s%s = %s\n", m, []string{"A", "B", "1"}[intn(3)], []string{"close self", "fwd self b", "f(b)", fmt.Sprintf("self.%s<b>", lbl)}[intn(4)])
		if intn(2) == 1 {
			fmt.Fprintf(&sb, "prc[b] : %s%s = %s\n", m, []string{"A", "B", "1"}[intn(3)], []string{"close self", fmt.Sprintf("case self (%s<y> => close self)", lbl)}[intn(2)])
		}
	}
	return sb.String()
}

// RuntimeFamily returns n well-typed programs that share every declaration except how they
// define the type name A (and its alias chain): positive in one member, negative in another,
// of different shapes. Each member creates a provider of A and then does the things whose
// run-time behaviour depends on A's polarity and shape being looked up by NAME: drop, split
// then drop, forward, a call that passes it on (and is duplicated). A table of type facts keyed
// by type name that survives from one run to the next gives the later member the earlier one's
// answer (C19).
func RuntimeFamily(intn func(int) int, n int) []string {
	m := []string{"", "aff ", "rep "}[intn(3)]
	canSplit := m != "aff "
	lbl := []string{"l", "a", "k"}[intn(3)]
	type shape struct{ ty, mk string }
	shapes := []shape{
		{"1", "close self"},
		{"1 * 1", "u <- new mkU(); v <- new mkU(); send self<u, v>"},
		{"+{" + lbl + " : 1}", "u <- new mkU(); self." + lbl + "<u>"},
		{"1 -* 1", "<u, z> <- recv self; wait u; close self"},
		{"&{" + lbl + " : 1}", "case self (" + lbl + "<z> => print w; close self)"},
		{"1 -* (1 * 1)", "<u, z> <- recv self; v <- new mkU(); send self<u, v>"},
	}
	// what main does with x : A (all of it legal whatever A is, given the mode admits drop)
	uses := []string{
		"drop x; print q; close self",
		"f : " + m + "A <- new fwd self x; print q; drop f; close self",
		"c <- new use(x); print q; wait c; close self",
	}
	if canSplit {
		uses = append(uses,
			"<x1, x2> <- split x; print q; drop x1; drop x2; close self",
			"<x1, x2> <- split x; c <- new use(x1); drop x2; wait c; print q; close self")
	}
	use := uses[intn(len(uses))]
	chain := intn(3) // 0: A defined directly, 1: A = B, 2: A = B = C
	var out []string
	for i := 0; i < n; i++ {
		s := shapes[intn(len(shapes))]
		var sb strings.Builder
		switch chain {
		case 0:
			fmt.Fprintf(&sb, "type A = %s%s\n", m, s.ty)
		case 1:
			fmt.Fprintf(&sb, "type A = %sB\ntype B = %s%s\n", m, m, s.ty)
		default:
			fmt.Fprintf(&sb, "type A = %sB\ntype B = %sC\ntype C = %s%s\n", m, m, m, s.ty)
		}
		fmt.Fprintf(&sb, "let mkU() : %s1 = close self\n", m)
		fmt.Fprintf(&sb, "let mkA() : %sA = %s\n", m, s.mk)
		fmt.Fprintf(&sb, "let use(y : %sA) : %s1 = print u; drop y; close self\n", m, m)
		fmt.Fprintf(&sb, "prc[main] : %s1 = x <- new mkA(); print p; %s\n", m, use)
		out = append(out, sb.String())
	}
	return out
}
