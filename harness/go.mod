module verifharness

go 1.26.8

require (
	grits v0.0.0
	pgregory.net/rapid v1.3.0
)

require golang.org/x/exp v0.0.0-20240808152545-0cdaa3abc0fa // indirect

replace grits => /repo
