// Package lang is the harness's own abstract syntax for Grits programs. It is
// independent of /repo's parser and process.Form: the generator builds these
// trees, the printer turns them into concrete syntax for the real parser, and
// the reference semantics (package ref) interprets them directly.
package lang

import (
	"fmt"
	"sort"
	"strings"
)

// ---------- types ----------

type Kind int

const (
	KUnit Kind = iota
	KTimes
	KLolli
	KPlus
	KWith
	KNamed
	KUp   // M1 /\ M2 A : A at mode M1, the shift itself at mode M2 (negative)
	KDown // M1 \/ M2 A : A at mode M1, the shift itself at mode M2 (positive)
)

type Br struct {
	L string
	T *Ty
}

// Ty is a session type. M is the mode the type lives at ("" = the program's
// default, printed nowhere). For shifts, L is the continuation, From its mode
// and M the mode of the shift type itself.
type Ty struct {
	K    Kind
	L, R *Ty
	Brs  []Br
	Name string
	M    string
	From string
}

type TyEnv map[string]*Ty

// inner prints a type without any head mode annotation.
func (t *Ty) inner() string {
	switch t.K {
	case KUnit:
		return "1"
	case KTimes:
		return "(" + t.L.inner() + " * " + t.R.inner() + ")"
	case KLolli:
		return "(" + t.L.inner() + " -* " + t.R.inner() + ")"
	case KPlus, KWith:
		s := "+{"
		if t.K == KWith {
			s = "&{"
		}
		for i, b := range t.Brs {
			if i > 0 {
				s += ", "
			}
			s += b.L + " : " + b.T.inner()
		}
		return s + "}"
	case KNamed:
		return t.Name
	case KUp:
		return "(" + t.From + " /\\ " + t.M + " " + t.L.inner() + ")"
	case KDown:
		return "(" + t.From + " \\/ " + t.M + " " + t.L.inner() + ")"
	}
	panic("lang: bad type kind")
}

// String is the mode-less structural text (used as a key and in messages).
func (t *Ty) String() string { return t.inner() }

// Text prints the type for an annotation position: head mode (if any) first.
func (t *Ty) Text() string {
	if t.M != "" && t.K != KUp && t.K != KDown {
		return t.M + " " + t.inner()
	}
	if t.K == KUp || t.K == KDown {
		s := t.inner()
		return s[1 : len(s)-1]
	}
	return t.inner()
}

func (e TyEnv) Unf(t *Ty) *Ty {
	for i := 0; t.K == KNamed; i++ {
		n, ok := e[t.Name]
		if !ok || i > 64 {
			panic("lang: cannot unfold " + t.Name)
		}
		t = n
	}
	return t
}

func (e TyEnv) Positive(t *Ty) bool {
	switch e.Unf(t).K {
	case KUnit, KTimes, KPlus, KDown:
		return true
	}
	return false
}

func (t *Ty) Branch(l string) *Ty {
	for _, b := range t.Brs {
		if b.L == l {
			return b.T
		}
	}
	panic("lang: no branch " + l)
}

// ---------- terms ----------

type Term interface{ Str() string }

type Send struct{ To, Payload, Cont string }
type Recv struct {
	X, Y, From string
	XT, YT     *Ty
	K          Term
}
type Sel struct{ To, Label, Cont string }
type Branch struct {
	Label, Payload string
	PT             *Ty
	K              Term
}
type Case struct {
	From string
	Brs  []Branch
}
type New struct {
	X    string
	XT   *Ty
	Ann  bool // print the type annotation
	Body Term
	K    Term
}
type Call struct {
	F    string
	Args []string
}
// Close is `close X` (X == "" means self).
type Close struct{ X string }
type Wait struct {
	X string
	K Term
}
// Fwd is `fwd To From` (To == "" means self).
type Fwd struct {
	To   string
	From string
	T    *Ty
	Pol  string // explicit polarity annotation printed in front of From ("+", "-" or "")
}
type Split struct {
	X1, X2, From string
	T            *Ty
	K            Term
}
type Drop struct {
	X string
	T *Ty
	K Term
}
type Print struct {
	L string
	K Term
}

// Cast is `cast To<Cont>`: `cast self<u>` (down-shift right rule) or
// `cast w<self>` (up-shift left rule).
type Cast struct{ To, Cont string }

// Shift is `X <- shift From; K`.
type Shift struct {
	X, From string
	XT      *Ty
	K       Term
}

func (t *Send) Str() string { return fmt.Sprintf("send %s<%s, %s>", t.To, t.Payload, t.Cont) }
func (t *Recv) Str() string {
	return fmt.Sprintf("<%s, %s> <- recv %s; %s", t.X, t.Y, t.From, t.K.Str())
}
func (t *Sel) Str() string { return fmt.Sprintf("%s.%s<%s>", t.To, t.Label, t.Cont) }
func (t *Case) Str() string {
	var bs []string
	for _, b := range t.Brs {
		bs = append(bs, fmt.Sprintf("%s<%s> => %s", b.Label, b.Payload, b.K.Str()))
	}
	return fmt.Sprintf("case %s (%s)", t.From, strings.Join(bs, " | "))
}
func (t *New) Str() string {
	body := t.Body.Str()
	switch t.Body.(type) {
	case *Recv, *New, *Wait, *Split, *Drop, *Print, *Shift, *Case:
		// a body with a continuation of its own is bracketed: `x <- new (P1; P2); Q`
		body = "(" + body + ")"
	}
	if t.Ann {
		return fmt.Sprintf("%s : %s <- new %s; %s", t.X, t.XT.Text(), body, t.K.Str())
	}
	return fmt.Sprintf("%s <- new %s; %s", t.X, body, t.K.Str())
}
func (t *Call) Str() string  { return fmt.Sprintf("%s(%s)", t.F, strings.Join(t.Args, ", ")) }
func (t *Close) Str() string {
	if t.X != "" {
		return "close " + t.X
	}
	return "close self"
}
func (t *Wait) Str() string  { return fmt.Sprintf("wait %s; %s", t.X, t.K.Str()) }
func (t *Fwd) Str() string {
	if t.To != "" {
		return "fwd " + t.To + " " + t.Pol + t.From
	}
	return "fwd self " + t.Pol + t.From
}
func (t *Split) Str() string {
	return fmt.Sprintf("<%s, %s> <- split %s; %s", t.X1, t.X2, t.From, t.K.Str())
}
func (t *Drop) Str() string  { return fmt.Sprintf("drop %s; %s", t.X, t.K.Str()) }
func (t *Print) Str() string { return fmt.Sprintf("print %s; %s", t.L, t.K.Str()) }
func (t *Cast) Str() string  { return fmt.Sprintf("cast %s<%s>", t.To, t.Cont) }
func (t *Shift) Str() string { return fmt.Sprintf("%s <- shift %s; %s", t.X, t.From, t.K.Str()) }

type Param struct {
	N string
	T *Ty
}

type Def struct {
	Name   string
	Params []Param
	Res    *Ty
	// Prov != "": explicit-provider form `let f[Prov : Res, params...] = Body`
	Prov string
	Body Term
}

type Proc struct {
	Names []string
	T     *Ty
	Body  Term
	// Exec != "": printed as `exec Exec()` instead of a prc declaration; Body
	// is then the callee's body instance (for REF) and Names holds one
	// synthetic provider name.
	Exec string
}

type TypeDef struct {
	Name string
	T    *Ty
}

type Program struct {
	Types []TypeDef
	TEnv  TyEnv
	Defs  []*Def
	Procs []*Proc
	// Order is a permutation of declaration indices used by the printer
	// (nil = types, then defs, then procs). Index i < len(Types) is a type,
	// then defs, then procs.
	Order []int
}

func (p *Program) declText(i int) string {
	nt, nd := len(p.Types), len(p.Defs)
	switch {
	case i < nt:
		t := p.Types[i]
		return fmt.Sprintf("type %s = %s", t.Name, t.T.Text())
	case i < nt+nd:
		d := p.Defs[i-nt]
		var ps []string
		for _, q := range d.Params {
			ps = append(ps, fmt.Sprintf("%s : %s", q.N, q.T.Text()))
		}
		if d.Prov != "" {
			all := append([]string{fmt.Sprintf("%s : %s", d.Prov, d.Res.Text())}, ps...)
			return fmt.Sprintf("let %s[%s] = %s", d.Name, strings.Join(all, ", "), d.Body.Str())
		}
		return fmt.Sprintf("let %s(%s) : %s = %s", d.Name, strings.Join(ps, ", "), d.Res.Text(), d.Body.Str())
	default:
		q := p.Procs[i-nt-nd]
		if q.Exec != "" {
			return fmt.Sprintf("exec %s()", q.Exec)
		}
		return fmt.Sprintf("prc[%s] : %s = %s", strings.Join(q.Names, ", "), q.T.Text(), q.Body.Str())
	}
}

// Text is the concrete syntax handed to the real parser.
func (p *Program) Text() string {
	n := len(p.Types) + len(p.Defs) + len(p.Procs)
	var sb strings.Builder
	if len(p.Order) == n {
		for _, i := range p.Order {
			sb.WriteString(p.declText(i))
			sb.WriteByte('\n')
		}
	} else {
		for i := 0; i < n; i++ {
			sb.WriteString(p.declText(i))
			sb.WriteByte('\n')
		}
	}
	return sb.String()
}

// Size is the minimisation measure: number of term and declaration nodes.
func (p *Program) Size() int {
	n := len(p.Types) + len(p.Defs) + len(p.Procs)
	for _, d := range p.Defs {
		n += TermSize(d.Body)
	}
	for _, q := range p.Procs {
		if q.Exec == "" {
			n += TermSize(q.Body)
		}
	}
	return n
}

func TermSize(t Term) int {
	switch x := t.(type) {
	case *Recv:
		return 1 + TermSize(x.K)
	case *Case:
		n := 1
		for _, b := range x.Brs {
			n += TermSize(b.K)
		}
		return n
	case *New:
		return 1 + TermSize(x.Body) + TermSize(x.K)
	case *Wait:
		return 1 + TermSize(x.K)
	case *Split:
		return 1 + TermSize(x.K)
	case *Drop:
		return 1 + TermSize(x.K)
	case *Print:
		return 1 + TermSize(x.K)
	case *Shift:
		return 1 + TermSize(x.K)
	}
	return 1
}

// Features reports which constructs a program uses (coverage probes and the
// contraction-free test of C03/C04).
type Features struct {
	Split, Drop, Fwd, MultiProv, Shift, Cast, Call, Print, Case, Recv int
	Exec, ExplicitProv, MultiArgCall, SelfArgCall, ThreeWay, Modes  int
}

func (p *Program) Features() Features {
	var f Features
	var walk func(t Term)
	walk = func(t Term) {
		switch x := t.(type) {
		case *Recv:
			f.Recv++
			walk(x.K)
		case *Case:
			f.Case++
			if len(x.Brs) >= 3 {
				f.ThreeWay++
			}
			for _, b := range x.Brs {
				walk(b.K)
			}
		case *New:
			walk(x.Body)
			walk(x.K)
		case *Wait:
			walk(x.K)
		case *Split:
			f.Split++
			walk(x.K)
		case *Drop:
			f.Drop++
			walk(x.K)
		case *Print:
			f.Print++
			walk(x.K)
		case *Shift:
			f.Shift++
			walk(x.K)
		case *Fwd:
			f.Fwd++
		case *Cast:
			f.Cast++
		case *Call:
			f.Call++
			if len(x.Args) >= 2 {
				f.MultiArgCall++
			}
			if len(x.Args) >= 1 && x.Args[0] == "self" {
				f.SelfArgCall++
			}
		}
	}
	modes := map[string]bool{}
	for _, t := range p.Types {
		modes[t.T.M] = true
		if len(t.T.Brs) >= 3 {
			f.ThreeWay++
		}
	}
	f.Modes = len(modes)
	for _, d := range p.Defs {
		if d.Prov != "" {
			f.ExplicitProv++
		}
		walk(d.Body)
	}
	for _, q := range p.Procs {
		if len(q.Names) > 1 {
			f.MultiProv++
		}
		if q.Exec != "" {
			f.Exec++
		}
		if q.Exec == "" {
			walk(q.Body)
		}
	}
	return f
}

// ContractionFree: no split and no multi-name provider (C03's NP clause).
func (p *Program) ContractionFree() bool {
	f := p.Features()
	return f.Split == 0 && f.MultiProv == 0
}

// FV collects the free channel names of a term (self excluded).
func FV(t Term, bound map[string]bool, out map[string]bool) {
	use := func(n string) {
		if n != "self" && !bound[n] {
			out[n] = true
		}
	}
	withB := func(names []string, f func()) {
		var added []string
		for _, n := range names {
			if !bound[n] {
				bound[n] = true
				added = append(added, n)
			}
		}
		f()
		for _, n := range added {
			delete(bound, n)
		}
	}
	switch x := t.(type) {
	case *Send:
		use(x.To)
		use(x.Payload)
		use(x.Cont)
	case *Recv:
		use(x.From)
		withB([]string{x.X, x.Y}, func() { FV(x.K, bound, out) })
	case *Sel:
		use(x.To)
		use(x.Cont)
	case *Case:
		use(x.From)
		for _, b := range x.Brs {
			withB([]string{b.Payload}, func() { FV(b.K, bound, out) })
		}
	case *New:
		FV(x.Body, bound, out)
		withB([]string{x.X}, func() { FV(x.K, bound, out) })
	case *Call:
		for _, a := range x.Args {
			use(a)
		}
	case *Close:
		if x.X != "" {
			use(x.X)
		}
	case *Wait:
		use(x.X)
		FV(x.K, bound, out)
	case *Fwd:
		if x.To != "" {
			use(x.To)
		}
		use(x.From)
	case *Split:
		use(x.From)
		withB([]string{x.X1, x.X2}, func() { FV(x.K, bound, out) })
	case *Drop:
		use(x.X)
		FV(x.K, bound, out)
	case *Print:
		FV(x.K, bound, out)
	case *Cast:
		use(x.To)
		use(x.Cont)
	case *Shift:
		use(x.From)
		withB([]string{x.X}, func() { FV(x.K, bound, out) })
	default:
		if fvExtra != nil && fvExtra(t) {
			return
		}
		panic(fmt.Sprintf("lang.FV: %T", t))
	}
}

// fvExtra lets package ref register its internal closed terms.
var fvExtra func(Term) bool

func RegisterClosedTerm(f func(Term) bool) { fvExtra = f }

func SortedKeys(m map[string]bool) []string {
	var ks []string
	for k := range m {
		ks = append(ks, k)
	}
	sort.Strings(ks)
	return ks
}
