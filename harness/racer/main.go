// Command racer is the race-transparent executor for property C13. It is built
// with `-race -tags verif`. A serial scheduler whose hand-offs went through
// channels or mutexes would order everything in the race detector's
// happens-before graph and hide every race, so all scheduler state lives in
// fixed arrays touched only from //go:norace functions and park/release is a
// plain flag polled with runtime.Gosched(): invisible to ThreadSanitizer. The
// only happens-before edges left are the interpreter's own. Workers run with
// GOMAXPROCS=1: the detector works on happens-before, not on real parallelism,
// and with one P a Gosched is a plain goroutine switch (multi-P spinning and
// futex parking were measured to saturate this VM at ~4 worker processes).
//
//	racer worker            cases from VERIF_SEED until VERIF_BUDGET_MS is used
//	racer single <replay>   one case in this fresh process; exit 66 if the race
//	                        detector reported a race with a frame in grits/
package main

import (
	"encoding/json"
	"fmt"
	"math/rand"
	"os"
	"os/exec"
	"path/filepath"
	"runtime"
	"sort"
	"strconv"
	"strings"
	"sync"
	"sync/atomic"
	"time"

	"grits/parser"
	"grits/process"
	"verifharness/choice"
	"verifharness/gen"
)

const maxTasks = 1024

type task struct {
	proc   *process.Process
	state  int32 // 0 running 1 parkedStep 2 parkedOp 3 parkedAfter 4 exited 5 panicked
	goFlag int32
	kind   process.SimOpKind
	data   chan process.Message
	ctlOut chan process.ControlMessage
	ctlIn  chan process.ControlMessage
	msg    string
}

type sched struct {
	tasks    [maxTasks]task
	n        int32
	vec      []int
	strategy int
	prints   []string
	free     int32
	steps    int
	panics   []string
	watchdog bool
	wdLimit  time.Duration
	re       *process.RuntimeEnvironment // the run this scheduler drives; hooks of other runs pass through
	last     *task
	running  *task // the task released alone (spawns only happen in such segments)
}

// cur is the scheduler of the case in progress. Stragglers of earlier cases
// still call the hooks; they are not in cur's table and pass straight through.
var cur *sched

type hooks struct{}

//go:norace
func (s *sched) find(p *process.Process) *task {
	n := s.n
	for i := int32(0); i < n; i++ {
		if s.tasks[i].proc == p {
			return &s.tasks[i]
		}
	}
	return nil
}

//go:norace
func (hooks) Spawn(p *process.Process, re *process.RuntimeEnvironment, run func()) {
	s := cur
	if s == nil || s.free != 0 || s.re != re || s.n >= maxTasks {
		// outside the serial scheduler; s.re != re: a straggler of an EARLIER case (a free run's
		// leftovers are still finishing their last step when the next case starts) must never
		// become a task of the current one (free runs, stragglers, overflow): an interpreter panic - the
		// non-polarized mode's known defect F16 produces them - must not take the racer down
		go func() {
			defer func() {
				if r := recover(); r != nil {
					atomic.AddInt32(&freePanics, 1)
				}
			}()
			run()
		}()
		return
	}
	i := s.n
	t := &s.tasks[i]
	t.proc = p
	t.state = 0
	s.n = i + 1
	go func() {
		defer s.exit(t)
		run()
	}()
	// the spawning process is rescheduled here: the child may run before the rest of the
	// parent's transition (no happens-before edge orders the two beyond the go statement)
	if par := s.running; par != nil {
		park(par.proc, 1, 0, nil, nil, nil)
	}
}

//go:norace
func (s *sched) exit(t *task) {
	if r := recover(); r != nil {
		t.msg = fmt.Sprint(r)
		t.state = 5
		return
	}
	t.state = 4
}

//go:norace
func park(p *process.Process, st int32, kind process.SimOpKind, data chan process.Message, ctlOut, ctlIn chan process.ControlMessage) {
	s := cur
	if s == nil || s.free != 0 {
		return
	}
	t := s.find(p)
	if t == nil {
		return
	}
	t.kind, t.data, t.ctlOut, t.ctlIn = kind, data, ctlOut, ctlIn
	t.state = st
	// wait without synchronising: with GOMAXPROCS=1 a Gosched is a plain goroutine switch
	for t.goFlag == 0 {
		if s.free != 0 {
			return
		}
		runtime.Gosched()
	}
	t.goFlag = 0
}

func (hooks) Step(p *process.Process, re *process.RuntimeEnvironment) { park(p, 1, 0, nil, nil, nil) }
func (hooks) Before(p *process.Process, re *process.RuntimeEnvironment, kind process.SimOpKind, data chan process.Message, ctlOut, ctlIn chan process.ControlMessage) {
	park(p, 2, kind, data, ctlOut, ctlIn)
}
func (hooks) After(p *process.Process, re *process.RuntimeEnvironment, what process.SimOpResult) {
	park(p, 3, 0, nil, nil, nil)
}

//go:norace
func (hooks) Event(p *process.Process, re *process.RuntimeEnvironment, kind process.SimEventKind, rule process.Rule, label string) {
	s := cur
	if s != nil && s.free == 0 && kind == process.SimRule && rule == process.PRINT && s.find(p) != nil {
		s.prints = append(s.prints, label)
	}
}
func (hooks) Close(p *process.Process, re *process.RuntimeEnvironment, n process.Name) {}

//go:norace
func (s *sched) quiet() bool {
	n := s.n
	for i := int32(0); i < n; i++ {
		if s.tasks[i].state == 0 {
			return false
		}
	}
	return true
}

type trans struct {
	a, b *task
	comm bool
}

//go:norace
func isRecvOn(t *task, ch chan process.Message) bool {
	if t.state != 2 || t.data != ch || ch == nil {
		return false
	}
	return t.kind == process.SimRecv || t.kind == process.SimRecvRaw || t.kind == process.SimSelectRecvNP
}

//go:norace
func listensCtl(t *task, c chan process.ControlMessage) bool {
	if t.state != 2 || t.ctlIn != c || c == nil {
		return false
	}
	switch t.kind {
	case process.SimSelectSendNP, process.SimSelectRecvNP, process.SimSelectFwdNP:
		return true
	}
	return false
}

//go:norace
func (s *sched) vecAt(i int) int {
	if len(s.vec) == 0 {
		return 0
	}
	return s.vec[i%len(s.vec)] + i/len(s.vec)
}

// run drives one case to quiescence; returns false if the watchdog fired.
//
//go:norace
func (s *sched) run(maxSteps int) bool {
	for {
		began := time.Now()
		for n := 0; !s.quiet(); n++ {
			runtime.Gosched()
			if n%4096 == 4095 && time.Since(began) > s.wdLimit {
				s.watchdog = true
				return false
			}
		}
		if s.steps >= maxSteps {
			return true
		}
		var en []trans
		n := s.n
		for i := int32(0); i < n; i++ {
			t := &s.tasks[i]
			switch t.state {
			case 1, 3:
				en = append(en, trans{a: t})
			case 2:
				switch t.kind {
				case process.SimSend, process.SimSelectSendNP:
					if t.data == nil {
						break
					}
					if cap(t.data) > 0 {
						if len(t.data) < cap(t.data) {
							en = append(en, trans{a: t, comm: true})
						}
					} else {
						for j := int32(0); j < n; j++ {
							r := &s.tasks[j]
							if r != t && isRecvOn(r, t.data) {
								en = append(en, trans{a: t, b: r, comm: true})
							}
						}
					}
				case process.SimRecv, process.SimRecvRaw:
					if t.data != nil && cap(t.data) > 0 && len(t.data) > 0 {
						en = append(en, trans{a: t, comm: true})
					}
				case process.SimPollNP:
					en = append(en, trans{a: t})
				case process.SimSelectFwdNP:
					for j := int32(0); j < n; j++ {
						r := &s.tasks[j]
						if r != t && listensCtl(r, t.ctlOut) {
							en = append(en, trans{a: t, b: r, comm: true})
						}
					}
				}
			}
		}
		if len(en) == 0 {
			return true
		}
		v := s.vecAt(s.steps)
		idx := v % len(en)
		switch s.strategy {
		case 1:
			if s.last != nil && v%4 != 0 {
				for i, c := range en {
					if c.a == s.last || c.b == s.last {
						idx = i
						break
					}
				}
			}
		case 2:
			if v%6 != 0 {
				idx = len(en) - 1
			}
		case 3:
			if v%5 != 0 {
				for i, c := range en {
					if c.comm {
						idx = i
						break
					}
				}
			}
		}
		c := en[idx]
		s.last = c.a
		s.running = nil
		if c.b == nil {
			s.running = c.a
		}
		c.a.state = 0
		if c.b != nil {
			c.b.state = 0
			c.b.goFlag = 1
		}
		c.a.goFlag = 1
		s.steps++
	}
}

//go:norace
func (s *sched) collectPanics() {
	n := s.n
	for i := int32(0); i < n; i++ {
		if s.tasks[i].state == 5 {
			s.panics = append(s.panics, s.tasks[i].msg)
		}
	}
}

//go:norace
func setCur(s *sched) { cur = s }

//go:norace
func setFree(s *sched) {
	s.free = 1
}

// ---- cases ----

type Case struct {
	Text     string `json:"program"`
	Mode     int    `json:"mode"`
	Monitor  bool   `json:"monitor"`
	Strategy int    `json:"strategy"`
	Vec      []int  `json:"vec"`
	// Free: no serial scheduler - the run goes through process.InitializeProcesses exactly as the
	// command line does (own heartbeat receiver, real timers, real `print` output) and the Go
	// runtime interleaves the process goroutines. The detector still works on happens-before.
	Free bool `json:"free,omitempty"`
	// CF: the program neither splits a channel nor declares a multi-name provider
	CF bool `json:"contraction_free"`
	// Verbose: 0 = print and log output suppressed (Quiet), 1 = `print` really writes, 2 = every log
	// level enabled as with --verbosity 3 (what the interpreter renders for its log lines is shared
	// state too), 3 = the same with colours. Standard output is /dev/null in the racer.
	Verbose int `json:"verbose,omitempty"`
}

func drawCase(ch choice.Chooser) *Case {
	c := &Case{}
	p := gen.Generate(ch.Intn, gen.Options{Collide: ch.Intn(2) == 1, MainStructured: ch.Intn(3) == 1})
	c.Text = p.Text()
	c.Mode = ch.Intn(3)
	c.CF = p.ContractionFree()
	if c.Mode == 2 && !p.ContractionFree() && ch.Intn(2) == 0 {
		// the non-polarized mode is unsound with contraction (known finding F16: operations on closed
		// channels, panics - counted, not C13's business); half of those cases are moved to a polarized
		// mode so that the budget is not spent on runs that die early, the other half runs as drawn
		c.Mode = ch.Intn(2)
	}
	c.Monitor = ch.Intn(3) == 1
	c.Strategy = ch.Intn(4)
	c.Vec = ch.Ints(120, 16)
	c.Free = ch.Intn(5) == 1
	if v := ch.Intn(8); v >= 5 {
		c.Verbose = v - 4
	}
	return c
}

type caseResult struct {
	Accepted bool
	Steps    int
	Tasks    int
	Prints   int
	Panics   []string
	Watchdog bool
}

var phase [6]time.Duration

var freePanics int32

var progress int64 // cases started (debugging aid, see VERIF_RACER_TRACE)

func runCase(c *Case) caseResult {
	t0 := time.Now()
	defer func() { phase[5] += time.Since(t0) }()
	procs, assumed, env, err := parser.ParseString(c.Text)
	if err != nil || len(assumed) > 0 {
		return caseResult{}
	}
	env.LogLevels = []process.LogLevel{}
	if err := process.Typecheck(procs, assumed, env); err != nil {
		return caseResult{}
	}
	phase[0] += time.Since(t0)
	t1 := time.Now()
	s := &sched{vec: c.Vec, strategy: c.Strategy, wdLimit: 20 * time.Second}
	if c.Mode == 2 && !c.CF {
		// non-polarized mode with contraction: the known defect F16 (channels closed under their
		// users) can leave a released task blocked for real; such a run is abandoned, quickly
		s.wdLimit = 1500 * time.Millisecond
	}
	setCur(s)
	re, _, cancel := process.NewRuntimeEnvironment()
	s.re = re
	re.GlobalEnvironment = env
	re.Typechecked = true
	re.Color = false
	re.Quiet = true
	re.ExecutionVersion = process.Execution_Version(c.Mode)
	re.UseMonitor = c.Monitor
	if c.Verbose >= 1 {
		re.Quiet = false
	}
	if c.Verbose >= 2 {
		env.LogLevels = []process.LogLevel{process.LOGINFO, process.LOGPROCESSING, process.LOGRULE, process.LOGRULEDETAILS}
		re.Color = c.Verbose == 3
	}
	if c.Free {
		setFree(s)
		re.Quiet = false
		process.InitializeProcesses(procs, nil, nil, re)
		phase[2] += time.Since(t1)
		_ = re.ProcessCount()
		_ = re.DeadProcessCount()
		_ = re.TimeTaken()
		time.Sleep(200 * time.Microsecond)
		_ = re.ProcessCount()
		return caseResult{Accepted: true, Steps: int(re.ProcessCount()), Tasks: int(re.ProcessCount())}
	}
	channels := re.CreateChannelForEachProcess(procs)
	re.SubstituteNameInitialization(procs, channels)
	if c.Monitor {
		wg := new(sync.WaitGroup)
		wg.Add(1)
		re.InitializeMonitor(wg, nil)
		wg.Wait()
	}
	go re.HeartbeatReceiver(time.Hour, cancel)
	re.StartTransitions(procs)
	phase[1] += time.Since(t1)
	t2 := time.Now()
	ok := s.run(3000)
	phase[2] += time.Since(t2)
	t3 := time.Now()
	defer func() { phase[3] += time.Since(t3) }()
	// end of the run: cancel, let every parked goroutine go (they now run truly concurrently),
	// and make the calls a driver makes after completion while stragglers may still be active
	cancel()
	setFree(s)
	_ = re.ProcessCount()
	_ = re.DeadProcessCount()
	_ = re.TimeTaken()
	time.Sleep(200 * time.Microsecond)
	_ = re.ProcessCount()
	_ = re.DeadProcessCount()
	if c.Monitor {
		done := make(chan struct{})
		go func() { re.StopMonitor(); close(done) }()
		select {
		case <-done:
		case <-time.After(2 * time.Second):
		}
	}
	s.collectPanics()
	return caseResult{Accepted: true, Steps: s.steps, Tasks: int(s.n), Prints: len(s.prints), Panics: s.panics, Watchdog: !ok}
}

// ---- race reports ----

type report struct {
	Sig   string `json:"signature"`
	Grits bool   `json:"grits_frame"`
	Text  string `json:"text"`
}

func logPath() string {
	for _, kv := range strings.Fields(os.Getenv("GORACE")) {
		if strings.HasPrefix(kv, "log_path=") {
			return strings.TrimPrefix(kv, "log_path=") + "." + strconv.Itoa(os.Getpid())
		}
	}
	return ""
}

func parseReports(text string) []report {
	var out []report
	for _, blk := range strings.Split(text, "==================") {
		if !strings.Contains(blk, "WARNING: DATA RACE") {
			continue
		}
		lines := strings.Split(blk, "\n")
		var tops []string
		grits := false
		for i, l := range lines {
			tl := strings.TrimSpace(l)
			if strings.Contains(tl, "grits/") {
				grits = true
			}
			if (strings.HasPrefix(tl, "Write at") || strings.HasPrefix(tl, "Read at") || strings.HasPrefix(tl, "Previous write at") || strings.HasPrefix(tl, "Previous read at") ||
				strings.HasPrefix(tl, "Atomic") || strings.HasPrefix(tl, "Previous atomic")) && i+1 < len(lines) {
				kind := strings.Fields(tl)
				k := kind[0]
				if k == "Previous" && len(kind) > 1 {
					k = kind[1]
				}
				// first frame that is not in the runtime / harness
				for j := i + 1; j < len(lines) && strings.TrimSpace(lines[j]) != ""; j += 2 {
					fn := strings.TrimSpace(lines[j])
					if p := strings.Index(fn, "("); p > 0 && !strings.HasPrefix(fn, "runtime.") && !strings.HasPrefix(fn, "sync/atomic") {
						// strip arguments
						if q := strings.LastIndex(fn, "("); q > 0 {
							fn = fn[:q]
						}
						tops = append(tops, strings.ToLower(k)+":"+fn)
						break
					}
				}
			}
		}
		sort.Strings(tops)
		out = append(out, report{Sig: strings.Join(tops, " | "), Grits: grits, Text: strings.TrimSpace(blk)})
	}
	return out
}

func readReports() []report {
	p := logPath()
	if p == "" {
		return nil
	}
	b, err := os.ReadFile(p)
	if err != nil {
		return nil
	}
	return parseReports(string(b))
}

// ---- replay files (same layout as the engine's) ----

type violation struct {
	Prop  string            `json:"property"`
	Class string            `json:"class"`
	Msg   string            `json:"msg"`
	Facts map[string]string `json:"facts,omitempty"`
}

type replayFile struct {
	Property  string    `json:"property"`
	Engine    string    `json:"engine"`
	Seed      uint64    `json:"seed"`
	Draws     []int     `json:"draws"`
	Input     *Case     `json:"input"`
	Violation violation `json:"violation"`
	Note      string    `json:"note,omitempty"`
}

type knownFinding struct {
	ID       string            `json:"id"`
	Property string            `json:"property"`
	Status   string            `json:"status"`
	What     string            `json:"what"`
	Match    map[string]string `json:"match"`
}

func loadKnown() []knownFinding {
	p := os.Getenv("VERIF_KNOWN")
	if p == "" {
		return nil
	}
	b, err := os.ReadFile(p)
	if err != nil {
		return nil
	}
	var kf struct {
		Findings []knownFinding `json:"findings"`
	}
	json.Unmarshal(b, &kf)
	return kf.Findings
}

func matchKnown(kfs []knownFinding, sig string) string {
	for _, k := range kfs {
		if k.Status != "known" || k.Property != "C13" || len(k.Match) == 0 {
			continue
		}
		if want, ok := k.Match["race_signature_contains"]; ok && strings.Contains(sig, want) {
			return k.ID
		}
	}
	return ""
}

// single runs one case in this process and reports via the exit status.
func single(path string) {
	b, err := os.ReadFile(path)
	if err != nil {
		fmt.Fprintln(out, "cannot read", path, err)
		os.Exit(2)
	}
	var rf replayFile
	if err := json.Unmarshal(b, &rf); err != nil {
		fmt.Fprintln(out, "bad replay file:", err)
		os.Exit(2)
	}
	c := rf.Input
	if c == nil {
		c = drawCase(&choice.Replay{Draws: rf.Draws})
	}
	res := runCase(c)
	if res.Watchdog {
		fmt.Fprintln(out, "WATCHDOG")
		os.Exit(2)
	}
	time.Sleep(5 * time.Millisecond)
	reps := readReports()
	outv := struct {
		Reports []report   `json:"reports"`
		Result  caseResult `json:"result"`
	}{reps, res}
	jb, _ := json.Marshal(outv)
	fmt.Fprintln(out, string(jb))
	for _, r := range reps {
		if r.Grits {
			os.Exit(66)
		}
	}
	if len(reps) > 0 {
		os.Exit(2) // only harness frames: a harness bug, never a violation
	}
	os.Exit(0)
}

// runSingle executes `racer single` in a fresh process and returns its reports.
func runSingle(dir string, rf *replayFile, tag string) ([]report, int) {
	path := filepath.Join(dir, "cand-"+tag+".json")
	b, _ := json.Marshal(rf)
	os.WriteFile(path, b, 0o644)
	cmd := exec.Command(os.Args[0], "single", path)
	cmd.Env = append(os.Environ(), "GORACE=halt_on_error=0 exitcode=0 log_path="+filepath.Join(dir, "single-"+tag))
	out, _ := cmd.Output()
	code := cmd.ProcessState.ExitCode()
	var parsed struct {
		Reports []report `json:"reports"`
	}
	for _, l := range strings.Split(string(out), "\n") {
		if strings.HasPrefix(l, "{") {
			json.Unmarshal([]byte(l), &parsed)
		}
	}
	files, _ := filepath.Glob(filepath.Join(dir, "single-"+tag+".*"))
	for _, f := range files {
		os.Remove(f)
	}
	os.Remove(path)
	return parsed.Reports, code
}

type workerOut struct {
	Prop         string         `json:"property"`
	Seed         uint64         `json:"seed"`
	Worker       int            `json:"worker"`
	Chunk        int            `json:"chunk"`
	Cases        int            `json:"cases"`
	Runs         int            `json:"runs"`
	Rejected     int            `json:"gen_rejected"`
	Steps        int64          `json:"steps"`
	Tasks        int64          `json:"tasks"`
	Nontrivial   int            `json:"nontrivial_runs"`
	ModeRuns     map[string]int `json:"mode_runs"`
	Faults       map[string]int `json:"faults"`
	Extra        map[string]int `json:"extra"`
	Samples      []any          `json:"samples"`
	Violations   []any          `json:"violations"`
	Known        map[string]int `json:"known_hits"`
	KnownExample map[string]any `json:"known_examples"`
	Trouble      []string       `json:"trouble"`
	WallS        float64        `json:"wall_s"`
	HashFile     string         `json:"hash_file"`
	Gomaxprocs   int            `json:"gomaxprocs"`
}

func envInt(k string, d int) int {
	if v := os.Getenv(k); v != "" {
		if n, err := strconv.Atoi(v); err == nil {
			return n
		}
	}
	return d
}

func worker() {
	start := time.Now()
	outdir := os.Getenv("VERIF_OUTDIR")
	if outdir == "" {
		outdir = "."
	}
	o := &workerOut{Prop: "C13", ModeRuns: map[string]int{}, Faults: map[string]int{}, Extra: map[string]int{}, Known: map[string]int{}, KnownExample: map[string]any{}, Gomaxprocs: runtime.GOMAXPROCS(0)}
	seed, _ := strconv.ParseUint(os.Getenv("VERIF_SEED"), 10, 64)
	o.Seed, o.Worker, o.Chunk = seed, envInt("VERIF_WORKER", 0), envInt("VERIF_CHUNK", 0)
	budget := time.Duration(envInt("VERIF_BUDGET_MS", 15000)) * time.Millisecond
	known := loadKnown()
	tag := fmt.Sprintf("C13-w%d-c%d", o.Worker, o.Chunk)
	hf, _ := os.Create(filepath.Join(outdir, tag+".hashes"))
	if hf != nil {
		o.HashFile = hf.Name()
		defer hf.Close()
	}
	defer func() {
		if os.Getenv("RACER_TIMING") != "" {
			fmt.Fprintln(out, "phases parse/tc, setup, run, epilogue, -, total:", phase)
		}
		o.WallS = time.Since(start).Seconds()
		b, _ := json.MarshalIndent(o, "", " ")
		os.WriteFile(filepath.Join(outdir, tag+".json"), b, 0o644)
	}()
	rng := rand.New(rand.NewSource(int64(seed*1000003 + uint64(o.Worker)*7919 + uint64(o.Chunk)*104729)))
	seenReports := 0
	modeName := []string{"async", "sync", "np"}
	for time.Since(start) < budget && len(o.Violations) < 2 && len(o.Trouble) == 0 {
		rec := &choice.Recorder{In: choice.Rand{R: rng}}
		c := drawCase(rec)
		atomic.AddInt64(&progress, 1)
		if os.Getenv("VERIF_RACER_TRACE") != "" {
			fmt.Fprintf(out, "TRACE case mode=%d free=%v verbose=%d monitor=%v len=%d\n", c.Mode, c.Free, c.Verbose, c.Monitor, len(c.Text))
			if f := os.Getenv("VERIF_RACER_TRACE"); f != "1" {
				jb, _ := json.Marshal(&replayFile{Property: "C13", Engine: "racer", Input: c})
				os.WriteFile(f, jb, 0o644)
			}
		}
		res := runCase(c)
		o.Cases++
		if !res.Accepted {
			o.Rejected++
			continue
		}
		if res.Watchdog && c.Mode == 2 && !c.CF {
			o.Extra["np_contraction_runs_abandoned_by_the_watchdog(F16)"]++
			continue
		}
		if res.Watchdog {
			o.Trouble = append(o.Trouble, "watchdog: a released task never parked again; program: "+c.Text)
			break
		}
		o.Runs++
		o.ModeRuns[modeName[c.Mode]]++
		o.Steps += int64(res.Steps)
		o.Tasks += int64(res.Tasks)
		if c.Monitor {
			o.Faults["monitor_attached_run"]++
		}
		if c.Free {
			o.Extra["free_runs_through_InitializeProcesses(real timers, real print output)"]++
		}
		if c.Verbose >= 2 {
			o.Extra["runs_with_every_log_level_enabled"]++
		}
		if n := atomic.SwapInt32(&freePanics, 0); n > 0 {
			o.Extra["interpreter_panics_outside_the_serial_scheduler(not C13's business)"] += int(n)
		}
		if len(res.Panics) > 0 {
			o.Extra["runs_with_interpreter_panic(not C13's business)"]++
		}
		if res.Tasks >= 3 && res.Steps >= 10 {
			o.Nontrivial++
			if hf != nil {
				fmt.Fprintf(hf, "R %x\n", hashCase(c))
			}
		}
		if len(o.Samples) < 3 && res.Steps >= 20 {
			o.Samples = append(o.Samples, map[string]any{"program": c.Text, "mode": modeName[c.Mode], "monitor": c.Monitor, "strategy": c.Strategy, "vec_len": len(c.Vec), "steps": res.Steps, "goroutines": res.Tasks})
		}
		reps := readReports()
		if len(reps) <= seenReports {
			continue
		}
		fresh := reps[seenReports:]
		seenReports = len(reps)
		for _, r := range fresh {
			if !r.Grits {
				o.Trouble = append(o.Trouble, "race report without a grits frame (harness bug): "+r.Text)
				continue
			}
			if id := matchKnown(known, r.Sig); id != "" {
				o.Known[id]++
				if _, ok := o.KnownExample[id]; !ok {
					o.KnownExample[id] = map[string]any{"signature": r.Sig, "program": c.Text}
				}
				continue
			}
			// confirm in a fresh process, then minimise the draw list there as well
			rf := &replayFile{Property: "C13", Engine: "racer", Seed: seed, Draws: rec.Draws, Input: c,
				Violation: violation{Prop: "C13", Class: "data-race", Msg: r.Sig, Facts: map[string]string{"signature": r.Sig}}}
			confirmed := false
			for try := 0; try < 3 && !confirmed; try++ {
				rs, _ := runSingle(outdir, rf, fmt.Sprintf("%s-%d", tag, try))
				for _, x := range rs {
					if x.Grits && matchKnown(known, x.Sig) == "" {
						confirmed = true
						rf.Violation.Msg = x.Sig
						rf.Note = x.Text
					}
				}
			}
			if !confirmed {
				o.Extra["unconfirmed_race_reports(seen once in a long-lived worker, not reproduced alone)"]++
				continue
			}
			minimise(outdir, tag, rf, known)
			dir := filepath.Join(outdir, "replays")
			os.MkdirAll(dir, 0o755)
			path := filepath.Join(dir, fmt.Sprintf("C13-data-race-%d-w%d-c%d-%d.json", seed, o.Worker, o.Chunk, o.Cases))
			b, _ := json.MarshalIndent(rf, "", " ")
			os.WriteFile(path, b, 0o644)
			o.Violations = append(o.Violations, map[string]any{"property": "C13", "class": "data-race", "msg": rf.Violation.Msg, "replay": path, "size": len(rf.Input.Text)})
			break
		}
	}
}

// minimise shrinks the draw list (drop tails, zero entries) while a fresh
// process still reports a race with a grits frame.
func minimise(dir, tag string, rf *replayFile, known []knownFinding) {
	still := func(draws []int) (*Case, bool) {
		c := drawCase(&choice.Replay{Draws: draws})
		cand := &replayFile{Property: "C13", Engine: "racer", Input: c, Draws: draws}
		rs, _ := runSingle(dir, cand, tag+"-min")
		for _, x := range rs {
			if x.Grits && matchKnown(known, x.Sig) == "" {
				return c, true
			}
		}
		return c, false
	}
	draws := append([]int{}, rf.Draws...)
	budget := 40
	for cut := len(draws) / 2; cut >= 1 && budget > 0; cut /= 2 {
		for len(draws) > cut && budget > 0 {
			budget--
			if c, ok := still(draws[:len(draws)-cut]); ok {
				draws = draws[:len(draws)-cut]
				rf.Input = c
			} else {
				break
			}
		}
	}
	for i := 0; i < len(draws) && budget > 0; i++ {
		if draws[i] == 0 {
			continue
		}
		old := draws[i]
		draws[i] = 0
		budget--
		if c, ok := still(draws); ok {
			rf.Input = c
		} else {
			draws[i] = old
		}
	}
	rf.Draws = draws
}

func hashCase(c *Case) uint64 {
	h := uint64(1469598103934665603)
	mix := func(s string) {
		for i := 0; i < len(s); i++ {
			h ^= uint64(s[i])
			h *= 1099511628211
		}
	}
	mix(c.Text)
	mix(fmt.Sprint(c.Mode, c.Monitor, c.Strategy, c.Vec))
	return h
}

// out is the racer's own standard output; os.Stdout itself is pointed at /dev/null before any
// goroutine exists, so that the interpreter's `print` really writes (free-run cases) without
// flooding the logs and without the harness ever touching os.Stdout while stragglers run.
var out = os.Stdout

func main() {
	if dn, err := os.OpenFile(os.DevNull, os.O_WRONLY, 0); err == nil {
		os.Stdout = dn
	}
	process.Sim = hooks{}
	if os.Getenv("VERIF_RACER_TRACE") != "" {
		go func() {
			last, since := int64(-1), time.Now()
			for {
				time.Sleep(time.Second)
				if n := atomic.LoadInt64(&progress); n != last {
					last, since = n, time.Now()
				} else if time.Since(since) > 25*time.Second {
					buf := make([]byte, 1<<22)
					buf = buf[:runtime.Stack(buf, true)]
					fmt.Fprintf(out, "NO PROGRESS for 25 s; goroutines:\n%s\n", buf)
					os.Exit(3)
				}
			}
		}()
	}
	if len(os.Args) >= 3 && os.Args[1] == "single" {
		single(os.Args[2])
		return
	}
	worker()
}
