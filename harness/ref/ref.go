package ref

import (
	"fmt"
	"sort"

	. "verifharness/lang"
)

// Reference semantics (polarized), independent of the repo's interpreter.

type ch int

type bind struct {
	c ch
	t *Ty
}

type bits []uint64

func (b bits) has(i int) bool { return i/64 < len(b) && b[i/64]&(1<<(uint(i)%64)) != 0 }
func (b bits) with(i int) bits {
	n := make(bits, max(len(b), i/64+1))
	copy(n, b)
	n[i/64] |= 1 << (uint(i) % 64)
	return n
}
func (b bits) or(o bits) bits {
	n := make(bits, max(len(b), len(o)))
	copy(n, b)
	for i, w := range o {
		n[i] |= w
	}
	return n
}
func (b bits) subset(o bits) bool {
	for i, w := range b {
		var ow uint64
		if i < len(o) {
			ow = o[i]
		}
		if w&^ow != 0 {
			return false
		}
	}
	return true
}
func (b bits) key() string { return fmt.Sprint([]uint64(b)) }

type rmsg struct {
	kind   string // SND RCV SEL BRA CLS FWD GC
	label  string
	c1, c2 bind
	provs  []ch
	hist   bits
}

type dropFwd struct {
	from bind
}

func (d *dropFwd) Str() string { return "dropfwd" }

func init() {
	RegisterClosedTerm(func(t Term) bool { _, ok := t.(*dropFwd); return ok })
}

type rproc struct {
	provs []ch
	env   map[string]bind
	term  Term
	hist  bits
	dead  bool
	self  string // explicit provider name of the definition being executed ("" = none)
	alias map[string]bool // names that denote the provider: continuations bound by a receive/case/shift on self
}

type Event struct {
	Label string
	Preds bits
}

type Ref struct {
	prog   *Program
	defs   map[string]*Def
	procs  []*rproc
	msgs   map[ch]*rmsg
	nch    ch
	Events []Event
	Steps  int
	Err    string
}

func (r *Ref) fresh() ch { r.nch++; return r.nch }

func (r *Ref) freeBinds(p *rproc) []string {
	out := map[string]bool{}
	FV(p.term, map[string]bool{}, out)
	var names []string
	for n := range out {
		if (p.self != "" && n == p.self) || p.alias[n] {
			continue
		}
		b, ok := p.env[n]
		if !ok {
			continue
		}
		isProv := false
		for _, c := range p.provs {
			if c == b.c {
				isProv = true
			}
		}
		if !isProv {
			names = append(names, n)
		}
	}
	sort.Strings(names)
	return names
}

func copyEnv(e map[string]bind) map[string]bind {
	n := make(map[string]bind, len(e)+2)
	for k, v := range e {
		n[k] = v
	}
	return n
}

func (r *Ref) spawn(provs []ch, env map[string]bind, t Term, h bits) *rproc {
	p := &rproc{provs: provs, env: env, term: t, hist: h}
	r.procs = append(r.procs, p)
	return p
}

// isProv: does the name denote the process's own provider? `self`, the explicit provider
// name of the current definition, or a name bound to the provider channel (the continuation
// of a receive / case / shift on self stays an alias of it).
func (r *Ref) isProv(p *rproc, n string) bool {
	if n == "self" || n == "" || (p.self != "" && n == p.self) {
		return true
	}
	return p.alias[n]
}

// unalias: a client-side binder spelled like an alias shadows it from here on.
func (p *rproc) unalias(ns ...string) {
	for _, n := range ns {
		if p.self != "" && n == p.self {
			p.self = "" // the explicit provider name is shadowed by this binder from here on
		}
	}
	hit := false
	for _, n := range ns {
		if p.alias[n] {
			hit = true
		}
	}
	if !hit {
		return
	}
	m := map[string]bool{}
	for k := range p.alias {
		m[k] = true
	}
	for _, n := range ns {
		delete(m, n)
	}
	p.alias = m
}

func (p *rproc) addAlias(n string) {
	m := map[string]bool{n: true}
	for k := range p.alias {
		m[k] = true
	}
	p.alias = m
}

func (r *Ref) res(p *rproc, n string) bind {
	if n == "self" || n == "" || (p.self != "" && n == p.self) || p.alias[n] {
		return bind{c: p.provs[0]}
	}
	b, ok := p.env[n]
	if !ok {
		panic("ref: unbound " + n)
	}
	return b
}

func NewRef(prog *Program) *Ref {
	r := &Ref{prog: prog, defs: map[string]*Def{}, msgs: map[ch]*rmsg{}}
	for _, d := range prog.Defs {
		r.defs[d.Name] = d
	}
	top := map[string]bind{}
	for _, q := range prog.Procs {
		for _, n := range q.Names {
			top[n] = bind{r.fresh(), q.T}
		}
	}
	for _, q := range prog.Procs {
		var provs []ch
		for _, n := range q.Names {
			provs = append(provs, top[n].c)
		}
		env := map[string]bind{}
		out := map[string]bool{}
		FV(q.Body, map[string]bool{}, out)
		for n := range out {
			if b, ok := top[n]; ok {
				env[n] = b
			}
		}
		r.spawn(provs, env, q.Body, nil)
	}
	return r
}

func (r *Ref) dup(p *rproc) {
	names := r.freeBinds(p)
	n := len(p.provs)
	fresh := map[string][]ch{}
	for _, f := range names {
		for i := 0; i < n; i++ {
			fresh[f] = append(fresh[f], r.fresh())
		}
	}
	for i := 0; i < n; i++ {
		env := copyEnv(p.env)
		for _, f := range names {
			env[f] = bind{fresh[f][i], p.env[f].t}
		}
		np := r.spawn([]ch{p.provs[i]}, env, p.term, p.hist)
		np.self = p.self
		np.alias = p.alias
	}
	for _, f := range names {
		b := p.env[f]
		r.spawn(fresh[f], map[string]bind{"$f": b}, &Fwd{From: "$f", T: b.t}, p.hist)
	}
	p.dead = true
}

func (r *Ref) put(c ch, m *rmsg) {
	if r.msgs[c] != nil {
		r.Err = fmt.Sprintf("ref: two messages on channel %d", c)
	}
	r.msgs[c] = m
}

func (r *Ref) take(c ch) *rmsg {
	m := r.msgs[c]
	delete(r.msgs, c)
	return m
}

// provider-side receive: handles FWD and GC; returns the message if it is an ordinary one
func (r *Ref) provRecv(p *rproc) (*rmsg, bool) {
	c := p.provs[0]
	m := r.msgs[c]
	if m == nil {
		return nil, false
	}
	r.take(c)
	p.hist = p.hist.or(m.hist)
	switch m.kind {
	case "FWD":
		p.provs = m.provs
		return nil, true
	case "GC":
		for _, f := range r.freeBinds(p) {
			b := p.env[f]
			r.spawn([]ch{r.fresh()}, map[string]bind{}, &dropFwd{from: b}, p.hist)
		}
		p.dead = true
		return nil, true
	}
	return m, true
}

// step returns true if the process made progress
func (r *Ref) step(p *rproc) bool {
	_, isFwd := p.term.(*Fwd)
	_, isDF := p.term.(*dropFwd)
	if len(p.provs) > 1 && !isFwd && !isDF {
		r.dup(p)
		return true
	}
	te := r.prog.TEnv
	switch x := p.term.(type) {
	case *Print:
		r.Events = append(r.Events, Event{x.L, p.hist})
		p.hist = p.hist.with(len(r.Events) - 1)
		p.term = x.K
		return true
	case *Close:
		r.put(p.provs[0], &rmsg{kind: "CLS", hist: p.hist})
		p.dead = true
		return true
	case *Wait:
		b := r.res(p, x.X)
		m := r.msgs[b.c]
		if m == nil {
			return false
		}
		if m.kind != "CLS" {
			r.Err = "ref: wait got " + m.kind
			return false
		}
		r.take(b.c)
		p.hist = p.hist.or(m.hist)
		p.term = x.K
		return true
	case *Send:
		if r.isProv(p, x.To) {
			r.put(p.provs[0], &rmsg{kind: "SND", c1: r.res(p, x.Payload), c2: r.res(p, x.Cont), hist: p.hist})
		} else {
			r.put(r.res(p, x.To).c, &rmsg{kind: "RCV", c1: r.res(p, x.Payload), c2: bind{c: p.provs[0]}, hist: p.hist})
		}
		p.dead = true
		return true
	case *Recv:
		if r.isProv(p, x.From) {
			m, ok := r.provRecv(p)
			if !ok {
				return false
			}
			if m == nil {
				return true
			}
			if m.kind != "RCV" {
				r.Err = "ref: recv self got " + m.kind
				return false
			}
			p.env = copyEnv(p.env)
			p.env[x.X] = bind{m.c1.c, x.XT}
			p.env[x.Y] = bind{m.c2.c, x.YT}
			p.provs = []ch{m.c2.c}
			p.addAlias(x.Y)
			p.term = x.K
			return true
		}
		b := r.res(p, x.From)
		m := r.msgs[b.c]
		if m == nil {
			return false
		}
		if m.kind != "SND" {
			r.Err = "ref: recv got " + m.kind
			return false
		}
		r.take(b.c)
		p.hist = p.hist.or(m.hist)
		p.env = copyEnv(p.env)
		p.env[x.X] = bind{m.c1.c, x.XT}
		p.env[x.Y] = bind{m.c2.c, x.YT}
		p.unalias(x.X, x.Y)
		p.term = x.K
		return true
	case *Sel:
		if r.isProv(p, x.To) {
			r.put(p.provs[0], &rmsg{kind: "SEL", label: x.Label, c1: r.res(p, x.Cont), hist: p.hist})
		} else {
			r.put(r.res(p, x.To).c, &rmsg{kind: "BRA", label: x.Label, c1: bind{c: p.provs[0]}, hist: p.hist})
		}
		p.dead = true
		return true
	case *Case:
		if r.isProv(p, x.From) {
			m, ok := r.provRecv(p)
			if !ok {
				return false
			}
			if m == nil {
				return true
			}
			if m.kind != "BRA" {
				r.Err = "ref: case self got " + m.kind
				return false
			}
			for _, b := range x.Brs {
				if b.Label == m.label {
					p.env = copyEnv(p.env)
					p.env[b.Payload] = bind{m.c1.c, b.PT}
					p.provs = []ch{m.c1.c}
					p.addAlias(b.Payload)
					p.term = b.K
					return true
				}
			}
			r.Err = "ref: no branch " + m.label
			return false
		}
		bd := r.res(p, x.From)
		m := r.msgs[bd.c]
		if m == nil {
			return false
		}
		if m.kind != "SEL" {
			r.Err = "ref: case got " + m.kind
			return false
		}
		r.take(bd.c)
		p.hist = p.hist.or(m.hist)
		for _, b := range x.Brs {
			if b.Label == m.label {
				p.env = copyEnv(p.env)
				p.env[b.Payload] = bind{m.c1.c, b.PT}
				p.unalias(b.Payload)
				p.term = b.K
				return true
			}
		}
		r.Err = "ref: no branch " + m.label
		return false
	case *Cast:
		if r.isProv(p, x.To) {
			r.put(p.provs[0], &rmsg{kind: "CST", c1: r.res(p, x.Cont), hist: p.hist})
		} else {
			r.put(r.res(p, x.To).c, &rmsg{kind: "SHF", c1: bind{c: p.provs[0]}, hist: p.hist})
		}
		p.dead = true
		return true
	case *Shift:
		if r.isProv(p, x.From) {
			m, ok := r.provRecv(p)
			if !ok {
				return false
			}
			if m == nil {
				return true
			}
			if m.kind != "SHF" {
				r.Err = "ref: shift self got " + m.kind
				return false
			}
			p.env = copyEnv(p.env)
			p.env[x.X] = bind{m.c1.c, x.XT}
			p.provs = []ch{m.c1.c}
			p.addAlias(x.X)
			p.term = x.K
			return true
		}
		b := r.res(p, x.From)
		m := r.msgs[b.c]
		if m == nil {
			return false
		}
		if m.kind != "CST" {
			r.Err = "ref: shift got " + m.kind
			return false
		}
		r.take(b.c)
		p.hist = p.hist.or(m.hist)
		p.env = copyEnv(p.env)
		p.env[x.X] = bind{m.c1.c, x.XT}
		p.unalias(x.X)
		p.term = x.K
		return true
	case *New:
		c := r.fresh()
		r.spawn([]ch{c}, copyEnv(p.env), x.Body, p.hist)
		p.env = copyEnv(p.env)
		p.env[x.X] = bind{c, x.XT}
		p.unalias(x.X)
		p.term = x.K
		return true
	case *Call:
		d := r.defs[x.F]
		args := x.Args
		if len(args) == len(d.Params)+1 {
			args = args[1:]
		}
		env := map[string]bind{}
		for i, q := range d.Params {
			b := r.res(p, args[i])
			env[q.N] = bind{b.c, q.T}
		}
		p.self = d.Prov // explicit provider name: a synonym of self inside this body
		p.alias = nil
		p.env = env
		p.term = d.Body
		return true
	case *Split:
		b := r.res(p, x.From)
		c1, c2 := r.fresh(), r.fresh()
		r.spawn([]ch{c1, c2}, map[string]bind{"$f": b}, &Fwd{From: "$f", T: x.T}, p.hist)
		p.env = copyEnv(p.env)
		p.env[x.X1] = bind{c1, x.T}
		p.env[x.X2] = bind{c2, x.T}
		p.unalias(x.X1, x.X2)
		p.term = x.K
		return true
	case *Drop:
		b := r.res(p, x.X)
		b.t = x.T
		r.spawn([]ch{r.fresh()}, map[string]bind{}, &dropFwd{from: b}, p.hist)
		p.term = x.K
		return true
	case *Fwd:
		b := r.res(p, x.From)
		if te.Positive(x.T) {
			m := r.msgs[b.c]
			if m == nil {
				return false
			}
			r.take(b.c)
			p.hist = p.hist.or(m.hist)
			u := te.Unf(x.T)
			switch m.kind {
			case "SND":
				p.env = map[string]bind{"$1": {m.c1.c, u.L}, "$2": {m.c2.c, u.R}}
				p.term = &Send{"self", "$1", "$2"}
			case "SEL":
				p.env = map[string]bind{"$1": {m.c1.c, u.Branch(m.label)}}
				p.term = &Sel{"self", m.label, "$1"}
			case "CLS":
				p.env = map[string]bind{}
				p.term = &Close{}
			case "CST":
				p.env = map[string]bind{"$1": {m.c1.c, u.L}}
				p.term = &Cast{"self", "$1"}
			default:
				r.Err = "ref: +fwd got " + m.kind
				return false
			}
			return true
		}
		r.put(b.c, &rmsg{kind: "FWD", provs: p.provs, hist: p.hist})
		p.dead = true
		return true
	case *dropFwd:
		if !te.Positive(x.from.t) {
			r.put(x.from.c, &rmsg{kind: "GC", hist: p.hist})
			p.dead = true
			return true
		}
		m := r.msgs[x.from.c]
		if m == nil {
			return false
		}
		r.take(x.from.c)
		p.hist = p.hist.or(m.hist)
		u := te.Unf(x.from.t)
		switch m.kind {
		case "SND":
			r.spawn([]ch{r.fresh()}, map[string]bind{}, &dropFwd{from: bind{m.c1.c, u.L}}, p.hist)
			r.spawn([]ch{r.fresh()}, map[string]bind{}, &dropFwd{from: bind{m.c2.c, u.R}}, p.hist)
		case "SEL":
			r.spawn([]ch{r.fresh()}, map[string]bind{}, &dropFwd{from: bind{m.c1.c, u.Branch(m.label)}}, p.hist)
		case "CST":
			r.spawn([]ch{r.fresh()}, map[string]bind{}, &dropFwd{from: bind{m.c1.c, u.L}}, p.hist)
		case "CLS":
		default:
			r.Err = "ref: dropfwd got " + m.kind
			return false
		}
		p.dead = true
		return true
	}
	panic(fmt.Sprintf("ref step %T", p.term))
}

// Run to quiescence with a round-robin schedule.
func (r *Ref) Run(maxSteps int) {
	for r.Steps < maxSteps && r.Err == "" {
		progress := false
		n := len(r.procs)
		for i := 0; i < n; i++ {
			p := r.procs[i]
			if p.dead {
				continue
			}
			if r.step(p) {
				progress = true
				r.Steps++
			}
			if r.Err != "" {
				return
			}
		}
		// compact
		var live []*rproc
		for _, p := range r.procs {
			if !p.dead {
				live = append(live, p)
			}
		}
		r.procs = live
		if !progress {
			return
		}
	}
}

func (r *Ref) Live() int { return len(r.procs) }

// Pending is the number of messages nobody consumed at quiescence: in the
// synchronous interpreter each of them is one sender blocked for ever.
func (r *Ref) Pending() int { return len(r.msgs) }

// LiveDesc describes what is left alive (for messages).
func (r *Ref) LiveDesc() []string {
	var out []string
	for _, p := range r.procs {
		out = append(out, fmt.Sprintf("%v:%s", p.provs, p.term.Str()))
	}
	return out
}

func (r *Ref) Labels() []string {
	var l []string
	for _, e := range r.Events {
		l = append(l, e.Label)
	}
	sort.Strings(l)
	return l
}

// Linearizes reports whether the observed word is a linear extension of the labelled partial order.
func (r *Ref) Linearizes(word []string) (bool, string) {
	n := len(r.Events)
	if len(word) != n {
		return false, fmt.Sprintf("length %d vs %d", len(word), n)
	}
	memo := map[string]bool{}
	nodes := 0
	var dfs func(i int, done bits) bool
	dfs = func(i int, done bits) bool {
		if i == n {
			return true
		}
		k := done.key()
		if memo[k] {
			return false
		}
		nodes++
		if nodes > 200000 {
			return false
		}
		for e := 0; e < n; e++ {
			if done.has(e) || r.Events[e].Label != word[i] || !r.Events[e].Preds.subset(done) {
				continue
			}
			if dfs(i+1, done.with(e)) {
				return true
			}
		}
		memo[k] = true
		return false
	}
	ok := dfs(0, nil)
	if nodes > 200000 {
		return true, "inconclusive"
	}
	return ok, ""
}
