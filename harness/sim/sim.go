// Package sim is the deterministic simulator for the Grits interpreter: an
// implementation of process.SimHooks that parks every process goroutine at
// each hook and releases exactly one enabled transition at a time, chosen by a
// pre-drawn schedule vector (or a recorded schedule when replaying), inside a
// testing/synctest bubble whose fake clock and quiescence detection put the
// heartbeat timer under the scheduler's control as well.
package sim

import (
	"bufio"
	"bytes"
	"crypto/sha256"
	"encoding/hex"
	"fmt"
	"hash/fnv"
	"os"
	"path/filepath"
	"runtime"
	"sort"
	"strings"
	"sync"
	"testing"
	"testing/synctest"
	"time"

	"grits/parser"
	"grits/process"
)

type tstate int

const (
	stRunning tstate = iota
	stStep
	stOp
	stAfter
	stExited
	stPanicked
	stKilled
	stUnhooked // durably blocked in a channel operation of the interpreter that no hook announces
	stSpawned  // parked right after spawning a child (a scheduling point inside a transition: never stalled)
	stLost    // released after cancellation and never parked again (blocked in a heartbeat/monitor send)
)

var stateName = map[tstate]string{stRunning: "running", stStep: "step", stOp: "op", stAfter: "after", stExited: "exited", stPanicked: "panicked", stKilled: "killed", stLost: "lost", stSpawned: "spawned", stUnhooked: "unhooked"}

var kindName = map[process.SimOpKind]string{
	process.SimSend: "send", process.SimRecv: "recv", process.SimRecvRaw: "recvraw",
	process.SimSelectSendNP: "npsend", process.SimSelectRecvNP: "nprecv", process.SimPollNP: "nppoll", process.SimSelectFwdNP: "npfwd",
}

type task struct {
	id     string
	proc   *process.Process
	wake   chan bool // true = die (runtime.Goexit)
	state  tstate
	kind   process.SimOpKind
	data   chan process.Message
	ctlOut chan process.ControlMessage
	ctlIn  chan process.ControlMessage
	nchild int
	msg    string
	prio   int64
	after  process.SimOpResult
	goid   string // "goroutine N" of the task's goroutine (to find it in a stack dump)
	// lateSteps counts the task's transitions begun after the run's context was cancelled. One
	// internal step may legitimately complete after cancellation (the interpreter checks the
	// context and then acts; the two are not atomic); a process that goes on after that ignores
	// the cancellation.
	lateSteps int
}

// Config is everything that decides one simulated run besides the program.
type Config struct {
	Mode     process.Execution_Version
	Monitor  bool
	DelayMs  int   // re.Delay in fake milliseconds
	Strategy int   // 0 uniform, 1 sticky, 2 priorities (PCT-like), 3 newest-first, 4 internal-first, 5 comm-first
	Vec      []int // schedule vector, consumed one entry per step (cyclic)
	Stalls   []int // fake ms to stall before the k-th release of a task parked at a step hook (cyclic, 0 = none, <= 45)
	CancelAt int   // >= 0: premature heartbeat expiry injected before this step (separate fault configuration)
	MaxSteps int
	Replay   []string // recorded schedule: follow literally
	// KeepLeftovers: at the end of the run do not kill tasks that are still
	// parked; let them run free as in production (C19 histories).
	KeepLeftovers bool
	KeepLog       bool
	NoTypecheck   bool
	// ViaFile: the text is written to a content-addressed file (once: an unchanged file keeps
	// its modification time) and parsed with parser.ParseFile instead of parser.ParseString.
	ViaFile bool `json:",omitempty"`
}

// srcFile returns the path of the content-addressed file holding src.
func srcFile(src string) (string, error) {
	dir := os.Getenv("VERIF_OUTDIR")
	if dir == "" {
		dir = os.TempDir()
	}
	dir = filepath.Join(dir, "srcfiles")
	if err := os.MkdirAll(dir, 0o755); err != nil {
		return "", err
	}
	h := sha256.Sum256([]byte(src))
	path := filepath.Join(dir, hex.EncodeToString(h[:10])+".grits")
	if _, err := os.Stat(path); err == nil {
		return path, nil
	}
	tmp := fmt.Sprintf("%s.%d.tmp", path, os.Getpid())
	if err := os.WriteFile(tmp, []byte(src), 0o644); err != nil {
		return "", err
	}
	return path, os.Rename(tmp, path)
}

type Blocked struct {
	Task  string `json:"task"`
	State string `json:"state"`
	Kind  string `json:"kind,omitempty"`
}

type TaskError struct {
	Task   string `json:"task"`
	Kind   string `json:"parked_kind,omitempty"` // what the task was last parked in
	Msg    string `json:"msg"`
	AtStep int    `json:"at_step"`
	Cancel bool   `json:"after_cancel"`
}

// Result is what the oracles look at.
type Result struct {
	ParseErr     string
	TypeErr      string
	Accepted     bool
	Prints       []string // labels actually written to standard output, in order
	RulePrints   []string // labels of the PRINT rule events seen by the hook
	LeftoverPrints []string // labels printed by leftovers after the run was over (KeepLeftovers)
	PrintTasks   []string
	Quiescent    []Blocked // table at the first instant no transition is enabled (before any cancellation)
	QuiescentAt  int
	Errors       []TaskError
	ModelErrors  []string // harness trouble: never a violation
	ProtocolObs  []string // receive from / send on a closed or nil channel seen by the model before cancellation
	ClosedOps    int      // the same, counted also after cancellation (a fact for known-finding matching)
	Steps        int
	Budget       bool // step budget exhausted before quiescence
	Cancelled    bool // a premature cancellation was injected and did cut the run short
	Returned     bool // InitializeProcesses returned
	Schedule     []string
	LogHash      string
	Log          []string
	FakeNs       int64
	Probes       map[string]int
	Tasks        int
	StallsFired  int
	Lost         int
	ProcessCount uint64
	DeadCount    uint64
	Diverged     string // replay could not follow the recorded schedule
	MonitorStall string // a process goroutine is stuck in a monitor notification (monitor wedged)
	Unhooked     []string // process goroutines found durably blocked in an un-announced channel operation
}

type sched struct {
	mu        sync.Mutex
	cfg       Config
	tasks     map[*process.Process]*task
	order     []*task
	cur       *task
	log       []string
	res       *Result
	closed    map[chan process.Message]bool
	closedCtl map[chan process.ControlMessage]bool
	freeRun   bool
	re        *process.RuntimeEnvironment
	last      *task
	stepRel   int
	nspawned  int
}

func (s *sched) logf(f string, a ...any) { s.log = append(s.log, fmt.Sprintf(f, a...)) }

func (s *sched) probe(k string) { s.res.Probes[k]++ }

// ---- process.SimHooks ----

func (s *sched) Spawn(p *process.Process, re *process.RuntimeEnvironment, run func()) {
	s.mu.Lock()
	if s.freeRun {
		s.mu.Unlock()
		go run()
		return
	}
	par := s.cur
	par.nchild++
	t := &task{id: fmt.Sprintf("%s.%d", par.id, par.nchild), proc: p, wake: make(chan bool), state: stRunning}
	h := fnv.New64a()
	h.Write([]byte(t.id))
	t.prio = int64(h.Sum64() >> 1)
	s.tasks[p] = t
	s.order = append(s.order, t)
	s.nspawned++
	s.logf("spawn %s by %s", t.id, par.id)
	s.mu.Unlock()
	go func() {
		var hdr [64]byte
		n := runtime.Stack(hdr[:], false)
		if f := strings.Fields(string(hdr[:n])); len(f) >= 2 {
			t.goid = f[0] + " " + f[1]
		}
		defer func() {
			r := recover()
			s.mu.Lock()
			if r != nil {
				t.state = stPanicked
				t.msg = fmt.Sprint(r)
				cancelled := s.re != nil && s.re.Ctx().Err() != nil
				s.res.Errors = append(s.res.Errors, TaskError{Task: t.id, Kind: kindName[t.kind], Msg: t.msg, AtStep: s.res.Steps, Cancel: cancelled})
				s.logf("panic %s", t.id)
			} else if t.state != stKilled {
				t.state = stExited
			}
			s.mu.Unlock()
		}()
		run()
	}()
	// the spawning process is itself rescheduled here: its new child (or anybody else) may run
	// before the rest of the parent's transition, as it may in a real execution
	if par.proc != nil {
		s.park(par.proc, stSpawned, nil)
	}
}

func (s *sched) park(p *process.Process, st tstate, f func(t *task)) {
	s.mu.Lock()
	t := s.tasks[p]
	if t == nil || s.freeRun {
		s.mu.Unlock()
		return
	}
	t.state = st
	if f != nil {
		f(t)
	}
	s.mu.Unlock()
	if die := <-t.wake; die {
		s.mu.Lock()
		t.state = stKilled
		s.mu.Unlock()
		runtime.Goexit()
	}
}

func (s *sched) Step(p *process.Process, re *process.RuntimeEnvironment) {
	s.park(p, stStep, func(t *task) {
		if s.re != nil && s.re.Ctx().Err() != nil {
			t.lateSteps++
		}
	})
}

func (s *sched) Before(p *process.Process, re *process.RuntimeEnvironment, kind process.SimOpKind, data chan process.Message, ctlOut, ctlIn chan process.ControlMessage) {
	s.park(p, stOp, func(t *task) { t.kind, t.data, t.ctlOut, t.ctlIn = kind, data, ctlOut, ctlIn })
}

func (s *sched) After(p *process.Process, re *process.RuntimeEnvironment, what process.SimOpResult) {
	s.park(p, stAfter, func(t *task) {
		t.after = what
		s.logf("after %s res=%d", t.id, what)
		if what == process.SimDoneCtl {
			s.probe("np_ctl_taken")
		}
	})
}

func (s *sched) Event(p *process.Process, re *process.RuntimeEnvironment, kind process.SimEventKind, rule process.Rule, label string) {
	s.mu.Lock()
	defer s.mu.Unlock()
	if s.freeRun {
		return // leftovers released at the end of the run are no longer under the scheduler's control
	}
	t := s.tasks[p]
	id := "?"
	if t != nil {
		id = t.id
	}
	switch kind {
	case process.SimRule:
		name := process.RuleString[rule]
		s.logf("rule %s %s %s", id, name, label)
		s.probe("rule_" + name)
		if rule == process.PRINT {
			s.res.Prints = append(s.res.Prints, label)
			s.res.PrintTasks = append(s.res.PrintTasks, id)
			if t != nil && t.lateSteps >= 1 {
				// printed by a process that has already begun a transition after the cancellation
				s.res.LeftoverPrints = append(s.res.LeftoverPrints, label)
			}
		}
	case process.SimTerminated:
		s.logf("term %s", id)
	}
}

func (s *sched) Close(p *process.Process, re *process.RuntimeEnvironment, n process.Name) {
	s.mu.Lock()
	if n.Channel != nil {
		s.closed[n.Channel] = true
	}
	if n.ControlChannel != nil {
		s.closedCtl[n.ControlChannel] = true
	}
	s.mu.Unlock()
}

// ---- enabledness model ----

type trans struct {
	a, b   *task // b != nil: pair; b is released first unless aFirst
	aFirst bool
	desc   string
	comm   bool
}

func isRecvOn(t *task, ch chan process.Message) bool {
	if t.state != stOp || t.data != ch || ch == nil {
		return false
	}
	return t.kind == process.SimRecv || t.kind == process.SimRecvRaw || t.kind == process.SimSelectRecvNP
}

func hasCtx(k process.SimOpKind) bool {
	return k == process.SimRecv || k == process.SimSelectSendNP || k == process.SimSelectRecvNP
}

func listensCtl(t *task, c chan process.ControlMessage) bool {
	if t.state != stOp || t.ctlIn != c || c == nil {
		return false
	}
	switch t.kind {
	case process.SimSelectSendNP, process.SimSelectRecvNP, process.SimPollNP, process.SimSelectFwdNP:
		return true
	}
	return false
}

// doomed: releasing the task makes a case on a closed channel ready (a send panics at
// once, a receive yields the zero message); such a task is offered only its own "closed"
// transition and never as the partner of a pair (two ready cases would toss Go's hidden coin).
func (s *sched) doomed(t *task) bool {
	if t.state != stOp {
		return false
	}
	switch t.kind {
	case process.SimSend, process.SimSelectSendNP:
		return t.data != nil && s.closed[t.data]
	case process.SimSelectFwdNP:
		return t.ctlOut != nil && s.closedCtl[t.ctlOut]
	case process.SimSelectRecvNP, process.SimRecv, process.SimRecvRaw:
		// a receive on a closed channel is ready by itself (it yields the zero message): the task
		// has its own "recvclosed" transition and must not also be set up as a partner
		return t.data != nil && s.closed[t.data]
	}
	return false
}

func (s *sched) enabled(cancelled bool) []trans {
	var out []trans
	// index the parked receivers / control-channel listeners once (the scan is linear in the tasks)
	recvOn := map[chan process.Message][]*task{}
	ctlOn := map[chan process.ControlMessage][]*task{}
	for _, r := range s.order {
		if r.state != stOp {
			continue
		}
		switch r.kind {
		case process.SimRecv, process.SimRecvRaw, process.SimSelectRecvNP:
			if r.data != nil {
				recvOn[r.data] = append(recvOn[r.data], r)
			}
		}
		switch r.kind {
		case process.SimSelectSendNP, process.SimSelectRecvNP, process.SimPollNP, process.SimSelectFwdNP:
			if r.ctlIn != nil {
				ctlOn[r.ctlIn] = append(ctlOn[r.ctlIn], r)
			}
		}
	}
	for _, t := range s.order {
		switch t.state {
		case stStep, stAfter, stSpawned:
			out = append(out, trans{a: t, desc: "go " + t.id})
		case stOp:
			switch t.kind {
			case process.SimSend, process.SimSelectSendNP:
				if t.data == nil {
					break // send on a nil channel blocks for ever
				}
				if s.closed[t.data] {
					// a send on a closed channel panics at once, partner or not
					out = append(out, trans{a: t, desc: "sendclosed " + t.id, comm: true})
					break
				}
				if cap(t.data) > 0 {
					if len(t.data) < cap(t.data) {
						out = append(out, trans{a: t, desc: "bufsend " + t.id, comm: true})
					}
				} else {
					for _, r := range recvOn[t.data] {
						if r != t && isRecvOn(r, t.data) && !s.doomed(r) {
							if cancelled && (hasCtx(r.kind) || hasCtx(t.kind)) {
								continue // both the data case and ctx.Done would be ready: not replayable, not offered
							}
							out = append(out, trans{a: t, b: r, desc: "rdv " + t.id + ">" + r.id, comm: true})
						}
					}
				}
				if cancelled && t.kind == process.SimSelectSendNP {
					out = append(out, trans{a: t, desc: "cancel " + t.id})
				}
			case process.SimRecv, process.SimRecvRaw, process.SimSelectRecvNP:
				ready := t.data != nil && ((cap(t.data) > 0 && len(t.data) > 0) || s.closed[t.data])
				if ready && !(cancelled && hasCtx(t.kind)) {
					d := "bufrecv "
					if s.closed[t.data] && len(t.data) == 0 {
						d = "recvclosed "
					}
					out = append(out, trans{a: t, desc: d + t.id, comm: true})
				}
				if cancelled && hasCtx(t.kind) && !ready {
					out = append(out, trans{a: t, desc: "cancel " + t.id})
				}
			case process.SimPollNP:
				out = append(out, trans{a: t, desc: "poll " + t.id})
			case process.SimSelectFwdNP:
				if t.ctlOut != nil && s.closedCtl[t.ctlOut] {
					out = append(out, trans{a: t, desc: "ctlclosed " + t.id, comm: true})
					break
				}
				for _, r := range ctlOn[t.ctlOut] {
					if r != t && listensCtl(r, t.ctlOut) && !s.doomed(r) {
						if cancelled && hasCtx(r.kind) {
							continue
						}
						out = append(out, trans{a: t, b: r, aFirst: r.kind == process.SimPollNP, desc: "ctl " + t.id + ">" + r.id, comm: true})
					}
				}
			}
		}
	}
	return out
}

func (s *sched) vec(i int) int {
	n := len(s.cfg.Vec)
	if n == 0 {
		return 0
	}
	return s.cfg.Vec[i%n] + i/n
}

// choose resolves the schedule vector into one of the enabled transitions.
func (s *sched) choose(en []trans, step int) (int, bool) {
	if s.cfg.Replay != nil {
		if step >= len(s.cfg.Replay) {
			return 0, false
		}
		for i, c := range en {
			if c.desc == s.cfg.Replay[step] {
				return i, true
			}
		}
		return 0, false
	}
	v := s.vec(step)
	n := len(en)
	switch s.cfg.Strategy {
	case 1: // sticky: keep running the same task, preempt now and then
		if s.last != nil && v%4 != 0 {
			for i, c := range en {
				if c.a == s.last || c.b == s.last {
					return i, true
				}
			}
		}
		return (v / 4) % n, true
	case 2: // priorities with change points
		best := 0
		for i, c := range en {
			if c.a.prio > en[best].a.prio {
				best = i
			}
		}
		if v%8 == 7 {
			en[best].a.prio = -int64(step) // demote
		}
		return best, true
	case 3: // newest first, with perturbation
		if v%6 == 0 {
			return (v / 6) % n, true
		}
		return n - 1, true
	case 4: // internal steps before communication
		var idx []int
		for i, c := range en {
			if !c.comm {
				idx = append(idx, i)
			}
		}
		if len(idx) > 0 && v%5 != 0 {
			return idx[(v/5)%len(idx)], true
		}
		return (v / 5) % n, true
	case 5: // communication first
		var idx []int
		for i, c := range en {
			if c.comm {
				idx = append(idx, i)
			}
		}
		if len(idx) > 0 && v%5 != 0 {
			return idx[(v/5)%len(idx)], true
		}
		return (v / 5) % n, true
	}
	return v % n, true
}

func (s *sched) release(t *task) {
	s.mu.Lock()
	wasStep := t.state == stStep
	t.state = stRunning
	s.cur = t
	s.mu.Unlock()
	if wasStep && len(s.cfg.Stalls) > 0 {
		d := s.cfg.Stalls[s.stepRel%len(s.cfg.Stalls)]
		s.stepRel++
		if d > 0 {
			if d > 45 {
				d = 45
			}
			time.Sleep(time.Duration(d) * time.Millisecond)
			synctest.Wait()
			s.res.StallsFired++
		}
	}
	t.wake <- false
	synctest.Wait()
	// the task may be inside time.Sleep(re.Delay): let fake time pass until it parks again
	for i := 0; wasStep && i < s.cfg.DelayMs+2; i++ {
		s.mu.Lock()
		st := t.state
		s.mu.Unlock()
		if st != stRunning {
			break
		}
		time.Sleep(time.Millisecond)
		synctest.Wait()
	}
}

func (s *sched) cancelled() bool { return s.re.Ctx().Err() != nil }

func (s *sched) table() []Blocked {
	var out []Blocked
	for _, t := range s.order {
		switch t.state {
		case stExited, stPanicked, stKilled:
		default:
			b := Blocked{Task: t.id, State: stateName[t.state]}
			if t.state == stOp {
				b.Kind = kindName[t.kind]
			}
			out = append(out, b)
		}
	}
	return out
}

// maxTasks bounds the process goroutines of one run (a run that spawns without end is cut off
// like one that exceeds the step budget: inconclusive, counted).
const maxTasks = 600

// prune drops finished tasks from the scan list (their relative order is kept).
func (s *sched) prune() {
	s.mu.Lock()
	defer s.mu.Unlock()
	live := s.order[:0]
	for _, t := range s.order {
		if t.state != stExited && t.state != stKilled && t.state != stPanicked {
			live = append(live, t)
		}
	}
	s.order = live
}

// run drives the simulation; it is the scheduler goroutine.
func (s *sched) run() {
	r := s.res
	synctest.Wait()
	maxSteps := s.cfg.MaxSteps
	if maxSteps <= 0 {
		maxSteps = 4000
	}
	quiescedOnce := false
	expire := func(why string) {
		// let the heartbeat expire: no transition is released meanwhile
		time.Sleep(time.Duration(s.cfg.DelayMs)*time.Millisecond + 200*time.Millisecond)
		synctest.Wait()
		s.logf("%s; cancelled=%v", why, s.cancelled())
	}
	for {
		r.Steps = len(r.Schedule)
		if r.Steps >= maxSteps || len(s.order) > maxTasks {
			r.Budget = !quiescedOnce
			break
		}
		if r.Steps%64 == 63 {
			s.prune()
		}
		if s.cfg.CancelAt >= 0 && r.Steps == s.cfg.CancelAt && !s.cancelled() {
			expire("premature heartbeat expiry")
			if !quiescedOnce {
				r.Cancelled = true
			}
			s.probe("fault_premature_cancel")
		}
		s.mu.Lock()
		canc := s.cancelled()
		en := s.enabled(canc)
		s.mu.Unlock()
		if len(en) == 0 {
			if !quiescedOnce && !canc {
				quiescedOnce = true
				s.mu.Lock()
				r.Quiescent = s.table()
				r.QuiescentAt = r.Steps
				s.mu.Unlock()
				s.logf("quiescent at %d: %v", r.Steps, r.Quiescent)
				expire("heartbeat expiry at quiescence")
				if !s.cancelled() {
					r.ModelErrors = append(r.ModelErrors, "context not cancelled 200ms (fake) after quiescence")
					break
				}
				continue
			}
			break
		}
		idx, ok := s.choose(en, r.Steps)
		if !ok {
			var ds []string
			for _, c := range en {
				ds = append(ds, c.desc)
			}
			want := "<end of recorded schedule>"
			if r.Steps < len(s.cfg.Replay) {
				want = s.cfg.Replay[r.Steps]
			}
			r.Diverged = fmt.Sprintf("step %d: recorded %q not among enabled %v", r.Steps, want, ds)
			break
		}
		c := en[idx]
		s.logf("step %d %s (of %d)", r.Steps, c.desc, len(en))
		r.Schedule = append(r.Schedule, c.desc)
		if strings.HasPrefix(c.desc, "recvclosed") || strings.HasPrefix(c.desc, "sendclosed") || strings.HasPrefix(c.desc, "ctlclosed") {
			r.ClosedOps++
		}
		if !canc {
			switch {
			case strings.HasPrefix(c.desc, "recvclosed"), strings.HasPrefix(c.desc, "sendclosed"), strings.HasPrefix(c.desc, "ctlclosed"):
				r.ProtocolObs = append(r.ProtocolObs, fmt.Sprintf("step %d: %s (%s)", r.Steps, c.desc, kindName[c.a.kind]))
			case strings.HasPrefix(c.desc, "rdv"):
				s.probe("sync_rendezvous")
			case strings.HasPrefix(c.desc, "ctl "):
				s.probe("np_ctl_pair")
				if c.aFirst {
					s.probe("np_poll_finds_fwd")
				}
			case strings.HasPrefix(c.desc, "bufsend"):
				s.probe("async_send")
			}
		}
		if c.b == nil {
			s.release(c.a)
		} else if c.aFirst {
			s.release(c.a)
			s.release(c.b)
		} else {
			s.release(c.b)
			s.release(c.a)
		}
		s.last = c.a
		s.mu.Lock()
		for _, t := range []*task{c.a, c.b} {
			if t != nil && t.state == stRunning {
				if s.cancelled() {
					t.state = stLost
					r.Lost++
				} else if s.cfg.Monitor && blockedInMonitor() {
					// not a harness problem: the process is blocked handing an update to the monitor,
					// which no longer takes any (the observer changed the outcome: C03's business)
					t.state = stLost
					r.Lost++
					r.MonitorStall = fmt.Sprintf("%s is blocked in a monitor notification after %q at step %d: the monitor goroutine no longer receives", t.id, c.desc, r.Steps)
				} else if where := blockedInInterpreter(t.goid); where != "" {
					// the goroutine is durably blocked in a channel operation of package process that
					// no hook announces (the tree under test does something the model has no
					// transition for): it is a real state of the system - the process waits there -
					// and is reported as such by the progress/determinism oracles
					t.state = stUnhooked
					r.Unhooked = append(r.Unhooked, fmt.Sprintf("%s after %q at step %d: %s", t.id, c.desc, r.Steps, where))
				} else {
					r.ModelErrors = append(r.ModelErrors, fmt.Sprintf("MODEL MISMATCH: %s neither parked nor finished after %q at step %d", t.id, c.desc, r.Steps))
				}
			}
		}
		bad := len(r.ModelErrors) > 0 || r.MonitorStall != ""
		s.mu.Unlock()
		if bad {
			break
		}
	}
	if !quiescedOnce && !r.Budget && r.Diverged == "" && len(r.ModelErrors) == 0 {
		// run ended under a premature cancellation
		s.mu.Lock()
		r.Quiescent = nil
		s.mu.Unlock()
	}
	if !s.cancelled() {
		expire("final heartbeat expiry")
	}
	// end of run: dispose of the tasks that are still parked
	s.mu.Lock()
	var parked []*task
	for _, t := range s.order {
		if t.state == stStep || t.state == stOp || t.state == stAfter || t.state == stSpawned {
			parked = append(parked, t)
		}
	}
	r.Tasks = s.nspawned
	if s.cfg.KeepLeftovers {
		s.freeRun = true
	}
	s.mu.Unlock()
	for _, t := range parked {
		t.wake <- !s.cfg.KeepLeftovers
	}
	synctest.Wait()
}

// The interpreter writes `> label` lines with fmt.Printf, i.e. to whatever os.Stdout is at
// that moment. For the duration of a run os.Stdout is a scratch file, so the labels the
// oracles see are the ones actually printed, not merely the PRINT rule events.
var outFile *os.File

// leftoverMark is the offset in the scratch file at which the scheduler handed the remaining
// parked tasks back to the Go scheduler (end of the controlled part of a run, KeepLeftovers
// only): labels written after it were printed by leftovers of a run that is over.
var leftoverMark int64 = -1

func markLeftovers() {
	if outFile != nil && leftoverMark < 0 {
		if off, err := outFile.Seek(0, 1); err == nil {
			leftoverMark = off
		}
	}
}

func captureStdout() (restore func() ([]string, []string)) {
	if outFile == nil {
		f, err := os.CreateTemp("", "verif-stdout-*")
		if err != nil {
			panic(err)
		}
		os.Remove(f.Name())
		outFile = f
	}
	outFile.Truncate(0)
	outFile.Seek(0, 0)
	old := os.Stdout
	os.Stdout = outFile
	leftoverMark = -1
	return func() ([]string, []string) {
		os.Stdout = old
		outFile.Seek(0, 0)
		var labels, late []string
		sc := bufio.NewScanner(outFile)
		sc.Buffer(make([]byte, 1<<16), 1<<24)
		var pos int64
		for sc.Scan() {
			l := sc.Bytes()
			if bytes.HasPrefix(l, []byte("> ")) {
				if leftoverMark >= 0 && pos >= leftoverMark {
					late = append(late, string(l[2:]))
				} else {
					labels = append(labels, string(l[2:]))
				}
			}
			pos += int64(len(l)) + 1
		}
		return labels, late
	}
}

// Run parses, typechecks and executes src under the simulator.
func Run(t *testing.T, src string, cfg Config) *Result {
	res := &Result{Probes: map[string]int{}, QuiescentAt: -1}
	func() {
		defer func() {
			if r := recover(); r != nil {
				if !strings.Contains(fmt.Sprint(r), "deadlock: main bubble goroutine has exited") {
					panic(r)
				}
				res.Probes["bubble_left_blocked_goroutines"]++
			}
		}()
		synctest.Test(t, func(t *testing.T) {
			start := time.Now()
			var procs []*process.Process
			var assumed []process.Name
			var env *process.GlobalEnvironment
			var err error
			if cfg.ViaFile {
				path, ferr := srcFile(src)
				if ferr != nil {
					res.ModelErrors = append(res.ModelErrors, "cannot write the source file: "+ferr.Error())
					return
				}
				procs, assumed, env, err = parser.ParseFile(path)
			} else {
				procs, assumed, env, err = parser.ParseString(src)
			}
			if err != nil {
				res.ParseErr = err.Error()
				return
			}
			env.LogLevels = []process.LogLevel{}
			if !cfg.NoTypecheck {
				if err := process.Typecheck(procs, assumed, env); err != nil {
					res.TypeErr = err.Error()
					return
				}
			}
			if len(assumed) > 0 {
				res.TypeErr = "open program (assuming)"
				return
			}
			res.Accepted = true
			s := &sched{cfg: cfg, tasks: map[*process.Process]*task{}, res: res, closed: map[chan process.Message]bool{}, closedCtl: map[chan process.ControlMessage]bool{}}
			s.cur = &task{id: "m"}
			re, _, _ := process.NewRuntimeEnvironment()
			re.GlobalEnvironment = env
			re.Typechecked = !cfg.NoTypecheck
			re.ExecutionVersion = cfg.Mode
			re.Color = false
			re.Quiet = false // log levels are empty: the only output is the `> label` lines
			re.UseMonitor = cfg.Monitor
			re.Delay = time.Duration(cfg.DelayMs) * time.Millisecond
			s.re = re
			process.Sim = s
			defer func() { process.Sim = nil }()
			restore := captureStdout()
			defer func() {
				res.RulePrints = res.Prints
				res.Prints, _ = restore()
			}()
			done := make(chan struct{})
			go func() { defer close(done); s.run() }()
			process.InitializeProcesses(procs, nil, nil, re)
			res.Returned = true
			<-done
			synctest.Wait()
			if cfg.Monitor && res.MonitorStall == "" {
				re.StopMonitor()
				res.Probes["monitor_attached"]++
			}
			res.ProcessCount, res.DeadCount = re.ProcessCount(), re.DeadProcessCount()
			_ = re.TimeTaken()
			res.FakeNs = int64(time.Since(start))
			s.log = canonicalLog(s.log)
			h := sha256.Sum256([]byte(strings.Join(s.log, "\n")))
			res.LogHash = hex.EncodeToString(h[:8])
			if cfg.KeepLog {
				res.Log = s.log
			}
		})
	}()
	return res
}

// blockedInInterpreter: is the goroutine durably blocked in a channel operation whose innermost
// non-runtime frame is interpreter code (package grits/process, not a hook)? Returns that frame.
func blockedInInterpreter(goid string) string {
	if goid == "" {
		return ""
	}
	buf := make([]byte, 1<<20)
	n := runtime.Stack(buf, true)
	for _, g := range strings.Split(string(buf[:n]), "\n\n") {
		if !strings.HasPrefix(g, goid+" ") {
			continue
		}
		head := g
		if i := strings.Index(g, "\n"); i > 0 {
			head = g[:i]
		}
		if !(strings.Contains(head, "chan send") || strings.Contains(head, "chan receive") || strings.Contains(head, "select")) || !strings.Contains(head, "durable") {
			return ""
		}
		for _, l := range strings.Split(g, "\n")[1:] {
			l = strings.TrimSpace(l)
			if strings.HasPrefix(l, "runtime.") || strings.HasPrefix(l, "/") || l == "" {
				continue
			}
			if strings.HasPrefix(l, "grits/process.") && !strings.Contains(l, "grits/process.sim") {
				if i := strings.Index(l, "("); i > 0 {
					return l[:strings.LastIndex(l, "(")]
				}
				return l
			}
			return ""
		}
	}
	return ""
}

// blockedInMonitor: is some goroutine blocked inside a monitor notification (a send on the
// monitor's unbuffered channel)?
func blockedInMonitor() bool {
	buf := make([]byte, 1<<20)
	n := runtime.Stack(buf, true)
	for _, g := range strings.Split(string(buf[:n]), "\n\n") {
		if strings.Contains(g, "chan send") && strings.Contains(g, "grits/process.(*Monitor).Monitor") {
			return true
		}
	}
	return false
}

// canonicalLog makes the event log independent of the Go scheduler: within one
// scheduler step the two tasks of a pair transition run concurrently for a few
// instructions (each up to its after-hook), so the order of *their* lines is not
// decided by the simulator. Lines between two "step" lines are stably grouped
// by task id; the order of one task's own lines is kept.
func canonicalLog(log []string) []string {
	out := make([]string, 0, len(log))
	flush := func(seg []string) {
		sort.SliceStable(seg, func(i, j int) bool { return logTask(seg[i]) < logTask(seg[j]) })
		out = append(out, seg...)
	}
	var seg []string
	for _, l := range log {
		if strings.HasPrefix(l, "step ") || strings.HasPrefix(l, "quiescent") || strings.Contains(l, "heartbeat expiry") {
			flush(seg)
			seg = nil
			out = append(out, l)
			continue
		}
		seg = append(seg, l)
	}
	flush(seg)
	return out
}

func logTask(l string) string {
	f := strings.Fields(l)
	if len(f) >= 4 && f[0] == "spawn" {
		return f[3] // "spawn <child> by <parent>": the parent's line
	}
	if len(f) >= 2 {
		return f[1]
	}
	return ""
}

// PrintMultiset is the sorted list of printed labels.
func (r *Result) PrintMultiset() []string {
	p := append([]string{}, r.Prints...)
	sort.Strings(p)
	return p
}

// Complete: the run reached quiescence by itself (no budget, no cancellation, no panic).
func (r *Result) Complete() bool {
	return r.Accepted && !r.Budget && !r.Cancelled && len(r.Errors) == 0 && r.QuiescentAt >= 0 && len(r.Unhooked) == 0 && r.MonitorStall == ""
}
